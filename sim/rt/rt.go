// Package rt is the deterministic scheduler runtime: real goroutines, parked
// at schedule points and released one at a time by a seeded chooser;
// quiescence is detected with testing/synctest (DESIGN.md §3.2).
//
// Everything in this package (and in the harness) is compiled WITHOUT race
// instrumentation in the race build, and every park/release runs between
// runtime.RaceDisable/RaceEnable, so the serialising scheduler adds no
// happens-before edges the race detector can see (DESIGN.md §3.7).
// Inside race-disabled regions nothing that uses sync.Pool (fmt, ...) is called.
package rt

import (
	"os"
	"runtime"
	"runtime/debug"
	"sort"
	"strconv"
	"sync"
	"syscall"
	"testing/synctest"
)

// Site describes one schedule point inserted by the instrumenter.
type Site struct {
	ID   int
	Kind string
	Fn   string
	Pos  string
}

// Sites is filled by the instrumented package's init.
var Sites []Site

// Harness-side sites (negative ids).
const (
	SiteSpawn    = -1
	SiteNetRead  = -10
	SiteNetWrite = -11
	SiteHold     = -20
	SiteActor    = -30
	SiteOS       = -40
)

func SiteName(id int) string {
	if id >= 0 && id < len(Sites) {
		s := Sites[id]
		return s.Kind + " " + s.Fn + " " + s.Pos
	}
	switch id {
	case SiteSpawn:
		return "spawn"
	case SiteNetRead:
		return "net.Read"
	case SiteNetWrite:
		return "net.Write"
	case SiteHold:
		return "impl.hold"
	case SiteActor:
		return "actor"
	case SiteOS:
		return "os.call"
	}
	return "site" + strconv.Itoa(id)
}

// G is one simulated goroutine.
type G struct {
	ID      string
	Name    string
	Parent  *G
	Seq     int // creation order
	wake    chan struct{}
	site    int
	cond    func() bool // nil: always enabled
	lockOn  *sync.Mutex
	nchild  int
	parked  bool
	done    bool
	prio    int
	started bool
	harnessOnly bool // never runs library code (raw peer actors/readers): ordered with the other harness-only goroutines
}

func (g *G) Done() bool   { return g.done }
func (g *G) Parked() bool { return g.parked }
func (g *G) Site() int    { return g.site }

// DescendsFrom reports whether g is a (transitive) child of a.
func (g *G) DescendsFrom(a *G) bool {
	for p := g.Parent; p != nil; p = p.Parent {
		if p == a {
			return true
		}
	}
	return false
}

type heldLock struct {
	m *sync.Mutex
	g *G
}

type Event struct {
	Step int
	G    string
	Site int
	Note string
}

// Scheduling policies.
const (
	PolUniform = iota
	PolSticky
	PolPCT
	PolStarve
	NPolicies
)

type PanicInfo struct {
	G     string
	Value string
	Stack string
}

type Sim struct {
	mu     sync.Mutex
	goids  []uint64 // no maps here: the runtime's map helpers report to the race detector on behalf of uninstrumented callers
	gsByID []*G
	all    []*G
	live   []*G // not yet finished, in creation order
	held   []heldLock

	rng      uint64
	Tape     []int32 // pairs (n, v)
	replay   []int32
	rpos     int
	Strict   bool
	Diverged string

	KeepTrace bool
	Trace     []Event
	Hash      uint64
	SchedHash uint64 // hash of the (goroutine, site) sequence only
	Steps     int
	MaxSteps  int
	Multi     int // steps at which >= 2 goroutines were enabled
	Exhausted bool

	Policy     int
	StickyPct  int
	pctChange  []int // steps at which the running goroutine is demoted
	pctLow     int
	StarveSeq  int // creation index of the starved goroutine (PolStarve)
	nroot      int
	last       *G

	Panic   *PanicInfo
	aborted bool

	OSYield bool // every os / syscall call of the instrumented Ufs is a schedule point
	// OS-fault seam (calls of the Unix file server into os / syscall): per-mille probability that
	// a call fails instead of being performed, at most OSMax times; every firing is logged.
	OSRate int
	OSMax  int
	OSSkip int // eligible calls to let pass before the rate applies (directed scenarios)
	OSLog  []OSFired
}

// OSFired is one injected operating-system error.
type OSFired struct {
	Step  int
	Name  string
	Errno syscall.Errno
}

var osErrnos = []syscall.Errno{syscall.EIO, syscall.ENOSPC, syscall.EACCES, syscall.EMFILE, syscall.ENOENT, syscall.EINTR, syscall.EROFS, syscall.ENOMEM}

// OSFault is called by the instrumented Ufs before every os / syscall call; a non-nil result is
// returned to the library instead of performing the call.
//
//go:norace
func OSFault(site int, name string) error {
	s := S
	if s != nil && s.OSYield {
		// a system call is a place where the goroutine may be descheduled
		Yield(site)
	}
	if s == nil || s.OSRate <= 0 || len(s.OSLog) >= s.OSMax {
		return nil
	}
	if s.OSSkip > 0 {
		s.OSSkip--
		return nil
	}
	if s.Choose(1000) >= s.OSRate {
		return nil
	}
	errno := osErrnos[s.Choose(len(osErrnos))]
	s.OSLog = append(s.OSLog, OSFired{s.Steps, name, errno})
	if len(name) > 8 && name[:8] == "syscall." {
		return errno
	}
	return &os.PathError{Op: name, Path: "(injected)", Err: errno}
}

// S is the simulation of the current bubble. nil outside simulation: the
// instrumented library then behaves like the original.
var S *Sim

func New(seed uint64) *Sim {
	s := &Sim{rng: seed*2862933555777941757 + 3037000493, MaxSteps: 200000,
		Hash: 14695981039346656037, SchedHash: 14695981039346656037, held: make([]heldLock, 0, 1024)}
	if s.rng == 0 {
		s.rng = 88172645463325252
	}
	S = s
	return s
}

// SetReplay makes the run take its choices from tape (pairs n,v) instead of the PRNG.
func (s *Sim) SetReplay(tape []int32, strict bool) {
	s.replay = tape
	if s.replay == nil {
		s.replay = []int32{}
	}
	s.Strict = strict
}

// SetPolicy draws the scheduling policy parameters from the choice source.
func (s *Sim) SetPolicy(pol int, expectSteps int) {
	s.Policy = pol
	switch pol {
	case PolSticky:
		s.StickyPct = 25 * (1 + s.Choose(3))
	case PolPCT:
		d := 1 + s.Choose(4)
		for i := 0; i < d; i++ {
			s.pctChange = append(s.pctChange, s.Choose(expectSteps))
		}
		sort.Ints(s.pctChange)
	case PolStarve:
		s.StarveSeq = s.Choose(12)
	}
}

//go:norace
func goid() uint64 {
	var buf [64]byte
	n := runtime.Stack(buf[:], false)
	var id uint64
	for i := len("goroutine "); i < n && buf[i] >= '0' && buf[i] <= '9'; i++ {
		id = id*10 + uint64(buf[i]-'0')
	}
	return id
}

//go:norace
func (s *Sim) curLocked() *G {
	id := goid()
	s.mu.Lock()
	var g *G
	for i := len(s.goids) - 1; i >= 0; i-- {
		if s.goids[i] == id {
			g = s.gsByID[i]
			break
		}
	}
	s.mu.Unlock()
	return g
}

// Cur returns the simulated goroutine of the caller (nil for the scheduler/root).
//
//go:norace
func Cur() *G {
	s := S
	if s == nil {
		return nil
	}
	raceDisable()
	g := s.curLocked()
	raceEnable()
	return g
}

// Choose draws an integer in [0,n) from the run's single choice source and
// records it on the tape. Only ever called by the one running goroutine or by
// the scheduler while everything else is blocked.
//
//go:norace
func (s *Sim) Choose(n int) int {
	if n <= 1 {
		return 0
	}
	var v int
	if s.replay != nil {
		if s.rpos+1 < len(s.replay) {
			rn, rv := int(s.replay[s.rpos]), int(s.replay[s.rpos+1])
			if rn != n && s.Strict && s.Diverged == "" {
				s.Diverged = "choice " + strconv.Itoa(s.rpos/2) + ": tape arity " + strconv.Itoa(rn) + ", run asks " + strconv.Itoa(n)
			}
			if rv < 0 {
				rv = -rv
			}
			v = rv % n
		} else if s.Strict && s.Diverged == "" {
			s.Diverged = "tape exhausted at choice " + strconv.Itoa(s.rpos/2)
		}
		s.rpos += 2
	} else {
		s.rng ^= s.rng << 13
		s.rng ^= s.rng >> 7
		s.rng ^= s.rng << 17
		v = int((s.rng >> 11) % uint64(n))
	}
	s.Tape = append(s.Tape, int32(n), int32(v))
	return v
}

// Choose is the package-level form used by the transport and the harness.
//
//go:norace
func Choose(n int) int {
	s := S
	if s == nil {
		return 0
	}
	return s.Choose(n)
}

//go:norace
func (s *Sim) mix(h *uint64, v uint64) {
	for i := 0; i < 8; i++ {
		*h ^= v & 0xff
		*h *= 1099511628211
		v >>= 8
	}
}

//go:norace
func (s *Sim) mixs(h *uint64, str string) {
	for i := 0; i < len(str); i++ {
		*h ^= uint64(str[i])
		*h *= 1099511628211
	}
	*h ^= 0xff
	*h *= 1099511628211
}

// Go starts f as a simulated goroutine; it does not run until scheduled.
//
//go:norace
func Go(site int, f func()) *G {
	s := S
	if s == nil {
		go f()
		return nil
	}
	raceDisable()
	g := &G{wake: make(chan struct{}), site: site}
	p := s.curLocked()
	s.mu.Lock()
	if p == nil {
		g.ID = pad3(s.nroot)
		s.nroot++
	} else {
		g.ID = p.ID + "." + pad3(p.nchild)
		p.nchild++
		g.Parent = p
	}
	g.Seq = len(s.all)
	s.all = append(s.all, g)
	s.live = append(s.live, g)
	s.mu.Unlock()
	raceEnable()
	go child(s, g, site, f)
	return g
}

func pad3(n int) string {
	x := strconv.Itoa(n)
	for len(x) < 3 {
		x = "0" + x
	}
	return x
}

//go:norace
func child(s *Sim, g *G, site int, f func()) {
	raceDisable()
	s.mu.Lock()
	s.goids = append(s.goids, goid())
	s.gsByID = append(s.gsByID, g)
	s.mu.Unlock()
	s.park(g, site, nil, nil)
	raceEnable()
	defer exit(s, g)
	f()
}

//go:norace
func exit(s *Sim, g *G) {
	e := recover()
	var val, stack string
	if e != nil {
		stack = string(debug.Stack())
		switch v := e.(type) {
		case error:
			val = v.Error()
		case string:
			val = v
		default:
			val = "panic (non-string value)"
		}
	}
	if g.harnessOnly {
		hsRelease()
	}
	raceDisable()
	s.mu.Lock()
	g.done = true
	for i := len(s.gsByID) - 1; i >= 0; i-- {
		if s.gsByID[i] == g {
			last := len(s.gsByID) - 1
			s.gsByID[i], s.goids[i] = s.gsByID[last], s.goids[last]
			s.gsByID, s.goids = s.gsByID[:last], s.goids[:last]
			break
		}
	}
	if e != nil && s.Panic == nil {
		s.Panic = &PanicInfo{G: g.ID + " " + g.Name, Value: val, Stack: stack}
		s.aborted = true
	}
	s.mu.Unlock()
	raceEnable()
}

//go:norace
func (s *Sim) park(g *G, site int, cond func() bool, m *sync.Mutex) {
	s.mu.Lock()
	g.site, g.cond, g.lockOn, g.parked = site, cond, m, true
	s.mu.Unlock()
	<-g.wake
}

// Yield is a schedule point.
//
//go:norace
func Yield(site int) {
	s := S
	if s == nil {
		return
	}
	raceDisable()
	g := s.curLocked()
	raceEnable()
	if g == nil {
		return
	}
	if g.harnessOnly {
		hsRelease()
	}
	raceDisable()
	s.park(g, site, nil, nil)
	raceEnable()
	if g.harnessOnly {
		hsAcquire()
	}
}

// HarnessOnly declares that the calling goroutine never runs library code.
//
//go:norace
func HarnessOnly() {
	s := S
	if s == nil {
		return
	}
	raceDisable()
	g := s.curLocked()
	raceEnable()
	if g != nil {
		g.harnessOnly = true
		hsAcquire()
	}
}

// YieldUntil parks until cond holds (evaluated by the scheduler at quiescence).
//
//go:norace
func YieldUntil(site int, cond func() bool) {
	s := S
	if s == nil {
		return
	}
	raceDisable()
	g := s.curLocked()
	raceEnable()
	if g == nil {
		return
	}
	if g.harnessOnly {
		hsRelease()
	}
	raceDisable()
	s.park(g, site, cond, nil)
	raceEnable()
	if g.harnessOnly {
		hsAcquire()
	}
}

//go:norace
func Lock(site int, m *sync.Mutex) {
	s := S
	if s == nil {
		m.Lock()
		return
	}
	raceDisable()
	g := s.curLocked()
	if g != nil {
		s.park(g, site, nil, m)
		s.mu.Lock()
		// no append / copy here: the runtime's slice helpers report to the race detector on the caller's behalf
		if len(s.held) == cap(s.held) {
			panic("vsim: more than 1024 mutexes held at once")
		}
		s.held = s.held[:len(s.held)+1]
		s.held[len(s.held)-1] = heldLock{m, g}
		s.mu.Unlock()
	}
	raceEnable()
	m.Lock()
}

//go:norace
func Unlock(m *sync.Mutex) {
	s := S
	m.Unlock()
	if s == nil {
		return
	}
	raceDisable()
	s.mu.Lock()
	for i := range s.held {
		if s.held[i].m == m {
			for j := i; j+1 < len(s.held); j++ {
				s.held[j] = s.held[j+1]
			}
			s.held[len(s.held)-1] = heldLock{}
			s.held = s.held[:len(s.held)-1]
			break
		}
	}
	s.mu.Unlock()
	raceEnable()
}

// SelectOrder returns the order in which a select's cases are polled.
//
//go:norace
func SelectOrder(site, n int) []int {
	s := S
	p := make([]int, n)
	for i := range p {
		p[i] = i
	}
	if s == nil || n < 2 {
		return p
	}
	raceDisable()
	for i := n - 1; i > 0; i-- {
		j := s.Choose(i + 1)
		p[i], p[j] = p[j], p[i]
	}
	raceEnable()
	return p
}

// MapOrder returns the map's keys sorted and then permuted by the choice source.
func MapOrder[K interface {
	~int | ~uint16 | ~uint32 | ~uint64 | ~string
}, V any](site int, m map[K]V) []K {
	keys := make([]K, 0, len(m))
	for k := range m {
		keys = append(keys, k)
	}
	sort.Slice(keys, func(i, j int) bool { return keys[i] < keys[j] })
	s := S
	if s == nil {
		return keys
	}
	ord := SelectOrder(site, len(keys))
	out := make([]K, len(keys))
	for i, j := range ord {
		out[i] = keys[j]
	}
	return out
}

// Run drives the simulation from the bubble's root goroutine until no
// simulated goroutine is enabled (quiescence: returns true) or the step
// budget is exhausted / a goroutine panicked (returns false).
//
//go:norace
func (s *Sim) Run() (quiescent bool) {
	hsRelease()
	raceDisable()
	defer func() {
		raceEnable()
		hsAcquire()
	}()
	var en []*G
	for {
		synctest.Wait()
		s.mu.Lock()
		if s.aborted {
			s.mu.Unlock()
			return false
		}
		if s.Steps >= s.MaxSteps {
			s.Exhausted = true
			s.mu.Unlock()
			return false
		}
		en = en[:0]
		k := 0
		for _, g := range s.live {
			if !g.done {
				s.live[k] = g
				k++
			}
		}
		for i := k; i < len(s.live); i++ {
			s.live[i] = nil
		}
		s.live = s.live[:k]
		for _, g := range s.live {
			if !g.parked {
				continue
			}
			if g.lockOn != nil && s.isHeld(g.lockOn) {
				continue
			}
			if g.cond != nil && !g.cond() {
				continue
			}
			en = append(en, g)
		}
		if len(en) == 0 {
			s.mu.Unlock()
			return true
		}
		sort.Slice(en, func(i, j int) bool { return en[i].ID < en[j].ID })
		if len(en) > 1 {
			s.Multi++
		}
		g := s.pick(en)
		s.last = g
		g.parked = false
		s.Steps++
		s.mix(&s.Hash, uint64(s.Steps))
		s.mixs(&s.Hash, g.ID)
		s.mix(&s.Hash, uint64(int64(g.site)))
		s.mixs(&s.SchedHash, g.ID)
		s.mix(&s.SchedHash, uint64(int64(g.site)))
		if s.KeepTrace {
			s.Trace = append(s.Trace, Event{s.Steps, g.ID, g.site, ""})
		}
		s.mu.Unlock()
		g.wake <- struct{}{}
	}
}

//go:norace
func (s *Sim) isHeld(m *sync.Mutex) bool {
	for i := range s.held {
		if s.held[i].m == m {
			return true
		}
	}
	return false
}

//go:norace
func (s *Sim) pick(en []*G) *G {
	if len(en) == 1 {
		return en[0]
	}
	switch s.Policy {
	case PolSticky:
		if s.last != nil {
			for _, x := range en {
				if x == s.last {
					if s.Choose(100) < s.StickyPct {
						return x
					}
					break
				}
			}
		}
	case PolPCT:
		for len(s.pctChange) > 0 && s.pctChange[0] <= s.Steps {
			s.pctChange = s.pctChange[1:]
			if s.last != nil {
				s.pctLow--
				s.last.prio = s.pctLow
			}
		}
		var best *G
		for _, x := range en {
			if !x.started {
				x.started = true
				x.prio = 1 + s.Choose(1000)
			}
			if best == nil || x.prio > best.prio {
				best = x
			}
		}
		return best
	case PolStarve:
		var rest []*G
		for _, x := range en {
			if x.Seq != s.StarveSeq {
				rest = append(rest, x)
			}
		}
		if len(rest) > 0 && len(rest) < len(en) {
			return rest[s.Choose(len(rest))]
		}
	}
	return en[s.Choose(len(en))]
}

// Note appends a harness-level event to the event hash (and trace).
//
//go:norace
func (s *Sim) Note(note string) {
	raceDisable()
	s.mu.Lock()
	s.mix(&s.Hash, uint64(s.Steps))
	s.mixs(&s.Hash, note)
	if s.KeepTrace {
		s.Trace = append(s.Trace, Event{s.Steps, "", 0, note})
	}
	s.mu.Unlock()
	raceEnable()
}

// Step returns the current global step number (harness event stamp).
//
//go:norace
func Step() int {
	if S == nil {
		return 0
	}
	return S.Steps
}

// Goroutines returns all simulated goroutines created so far.
func (s *Sim) Goroutines() []*G { return s.all }

// Describe says where a goroutine is (for reports): finished, parked at a
// disabled schedule point, or blocked inside the operation that follows its
// last schedule point.
func (s *Sim) Describe(g *G) string {
	switch {
	case g.done:
		return "finished"
	case g.parked && g.lockOn != nil:
		return "waiting for mutex at " + SiteName(g.site)
	case g.parked:
		return "parked (disabled) at " + SiteName(g.site)
	default:
		return "blocked after " + SiteName(g.site)
	}
}

//go:norace
func SetName(n string) {
	s := S
	if s == nil {
		return
	}
	raceDisable()
	if g := s.curLocked(); g != nil {
		g.Name = n
	}
	raceEnable()
}
