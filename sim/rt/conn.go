package rt

import (
	"fmt"
	"errors"
	"io"
	"net"
	"time"
)

// Segmentation policies: how many of the available bytes one Read returns.
const (
	SegRandom = iota // 1..n uniformly
	SegOne           // one byte per read
	SegTiny          // 1..3 bytes
	SegAll           // everything available (coalescing)
	SegMixed         // per read: one of the above, drawn
	NSeg
)

// Pipe is one direction of a simulated byte stream.
type Pipe struct {
	buf      []byte
	Cap      int  // 0: unbounded; else writers park when full (back-pressure)
	wclose   bool // writer closed: reader sees EOF after draining
	rclose   bool // reader closed: writer gets an error
	Written  int  // total bytes accepted from the writer
	Consumed int  // total bytes returned to the reader
	Seg      int  // segmentation policy for the reading side

	// Faults (all offsets are in bytes of this direction's stream).
	CutAt     int  // >=0: reader gets EOF (or reset) once Consumed == CutAt; later bytes are dropped
	CutReset  bool // the cut is a reset (error), and the reader's own writes fail afterwards
	WFailAt   int  // >=0: a Write crossing this offset accepts the bytes before it and fails
	Stall     bool // reader side stalled: Read never becomes enabled (peer not reading: set on the *other* side's out pipe)
	CutFired  bool
	WFailFire bool

	Reads, Writes int // counters
	Splits        int // reads that returned fewer bytes than available
	Coalesced     int // reads that returned more than one write's worth
	lastWriteEnd  []int
	WLog          []WRec      // every write: end offset and step, so that a reader can date any byte
	OnRead        func(n int) // harness observer (called by the reading goroutine)
	Bounds        []int       // explicit segment boundaries (stream offsets, ascending): a Read never crosses the next one
	BufGrow       int
}

type WRec struct{ End, Step int }

// WrittenAt returns the step at which the byte at stream offset off was written.
func (p *Pipe) WrittenAt(off int) int {
	for _, w := range p.WLog {
		if w.End > off {
			return w.Step
		}
	}
	return -1
}

// Conn is one end of a simulated connection. All state transitions happen in
// the single running simulated goroutine; waiting is done at schedule points.
type Conn struct {
	SameRemote bool // RemoteAddr is the same string for every connection
	name       string
	In         *Pipe
	Out        *Pipe
	closed     bool
	failed     bool // a reset cut fired: this end's writes fail too
}

var ErrClosed = fmt.Errorf("simconn: %w", net.ErrClosed) // as a TCP connection reports a local close (net.Pipe would say io.ErrClosedPipe)
var ErrReset = errors.New("simconn: connection reset by peer")

func NewPipePair(capacity int, an, bn string) (*Conn, *Conn) {
	ab := &Pipe{Cap: capacity, CutAt: -1, WFailAt: -1}
	ba := &Pipe{Cap: capacity, CutAt: -1, WFailAt: -1}
	return &Conn{name: an, In: ba, Out: ab}, &Conn{name: bn, In: ab, Out: ba}
}

func (p *Pipe) avail() int {
	n := len(p.buf)
	if p.CutAt >= 0 && p.Consumed+n > p.CutAt {
		n = p.CutAt - p.Consumed
		if n < 0 {
			n = 0
		}
	}
	return n
}

func (p *Pipe) cutReached() bool { return p.CutAt >= 0 && p.Consumed >= p.CutAt }

// Buffered returns the bytes written but not yet read.
func (p *Pipe) Buffered() int { return len(p.buf) }

//go:norace
func (c *Conn) readable() bool {
	return c.closed || c.failed || c.In.avail() > 0 || c.In.cutReached() || c.In.wclose
}

//go:norace
func (c *Conn) Read(b []byte) (int, error) {
	if len(b) == 0 {
		return 0, nil
	}
	YieldUntil(SiteNetRead, c.readable)
	in := c.In
	in.Reads++
	if c.closed {
		return 0, ErrClosed
	}
	if c.failed {
		return 0, ErrReset
	}
	n := in.avail()
	if n == 0 {
		if in.cutReached() {
			in.CutFired = true
			in.buf = nil
			if in.CutReset {
				c.failed = true
				return 0, ErrReset
			}
			return 0, io.EOF
		}
		return 0, io.EOF // writer closed and drained
	}
	have := n
	if n > len(b) {
		n = len(b)
	}
	for len(in.Bounds) > 0 && in.Bounds[0] <= in.Consumed {
		in.Bounds = in.Bounds[1:]
	}
	if len(in.Bounds) > 0 && in.Consumed+n > in.Bounds[0] {
		n = in.Bounds[0] - in.Consumed
	}
	if n > 1 {
		pol := in.Seg
		if pol == SegMixed {
			pol = Choose(4)
		}
		switch pol {
		case SegRandom:
			n = 1 + Choose(n)
		case SegOne:
			n = 1
		case SegTiny:
			if n > 3 {
				n = 3
			}
			n = 1 + Choose(n)
		case SegAll:
		}
	}
	if n < have {
		in.Splits++
	}
	copy(b, in.buf[:n])
	ioAcquire()
	in.buf = in.buf[n:]
	in.Consumed += n
	// coalescing: did this read span more than one write?
	k := 0
	for len(in.lastWriteEnd) > 0 && in.lastWriteEnd[0] <= in.Consumed {
		in.lastWriteEnd = in.lastWriteEnd[1:]
		k++
	}
	if k > 1 {
		in.Coalesced++
	}
	if in.OnRead != nil {
		in.OnRead(n)
	}
	return n, nil
}

//go:norace
func (c *Conn) writable() bool {
	out := c.Out
	return c.closed || c.failed || out.rclose || out.Cap == 0 || len(out.buf) < out.Cap || out.WFailFire ||
		(out.WFailAt >= 0 && out.Written >= out.WFailAt)
}

//go:norace
func (c *Conn) Write(b []byte) (int, error) {
	w := 0
	out := c.Out
	out.Writes++
	for len(b) > 0 {
		YieldUntil(SiteNetWrite, c.writable)
		if c.closed {
			return w, ErrClosed
		}
		if c.failed || out.rclose || out.WFailFire {
			return w, ErrReset
		}
		n := len(b)
		if out.Cap > 0 && n > out.Cap-len(out.buf) {
			n = out.Cap - len(out.buf)
		}
		fail := false
		if out.WFailAt >= 0 && out.Written+n >= out.WFailAt {
			n = out.WFailAt - out.Written
			if n < 0 {
				n = 0
			}
			fail = true
		}
		ioRelease()
		keep := n
		if out.CutAt >= 0 && out.Written+keep > out.CutAt { // bytes past a cut are never delivered
			keep = out.CutAt - out.Written
			if keep < 0 {
				keep = 0
			}
		}
		out.buf = append(out.buf, b[:keep]...)
		out.Written += n
		if n > 0 {
			out.WLog = append(out.WLog, WRec{out.Written, Step()})
		}
		b = b[n:]
		w += n
		if fail {
			out.WFailFire = true
			return w, ErrReset
		}
	}
	out.lastWriteEnd = append(out.lastWriteEnd, out.Written)
	return w, nil
}

//go:norace
func (c *Conn) Close() error {
	if c.closed {
		return ErrClosed
	}
	c.closed = true
	c.Out.wclose = true
	c.In.rclose = true
	return nil
}

// CloseWrite ends this side's outgoing stream only (a TCP half-close): the peer reads EOF once it has drained
// what was written, while this side can still be written to.
//
//go:norace
func (c *Conn) CloseWrite() { c.Out.wclose = true }

// Reset makes both directions fail at once (harness fault).
//
//go:norace
func (c *Conn) Reset() {
	c.failed = true
	c.Out.wclose = true
	c.In.rclose = true
	c.In.buf = nil
}

func (c *Conn) Closed() bool { return c.closed }

type addr string

func (a addr) Network() string { return "sim" }
func (a addr) String() string  { return string(a) }

func (c *Conn) LocalAddr() net.Addr { return addr(c.name) }
func (c *Conn) RemoteAddr() net.Addr {
	if c.SameRemote {
		return addr("pipe") // like both ends of net.Pipe, or every client of a unix socket: all peers look alike
	}
	return addr(c.name + "-peer")
}
func (c *Conn) SetDeadline(t time.Time) error      { return nil }
func (c *Conn) SetReadDeadline(t time.Time) error  { return nil }
func (c *Conn) SetWriteDeadline(t time.Time) error { return nil }
