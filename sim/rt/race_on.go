//go:build race

package rt

import (
	"runtime"
	"unsafe"
)

func raceDisable() { runtime.RaceDisable() }
func raceEnable()  { runtime.RaceEnable() }

var ioSync uint64

// Like internal/poll: every read happens-after every earlier write.
func ioRelease() { runtime.RaceReleaseMerge(unsafe.Pointer(&ioSync)) }
func ioAcquire() { runtime.RaceAcquire(unsafe.Pointer(&ioSync)) }
