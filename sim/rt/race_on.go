//go:build race

package rt

import (
	"runtime"
	"unsafe"
)

func raceDisable() { runtime.RaceDisable() }
func raceEnable()  { runtime.RaceEnable() }

var ioSync uint64

// Like internal/poll: every read happens-after every earlier write.
func ioRelease() { runtime.RaceReleaseMerge(unsafe.Pointer(&ioSync)) }
func ioAcquire() { runtime.RaceAcquire(unsafe.Pointer(&ioSync)) }

// Harness-only goroutines (raw peers and the scheduler root) share harness
// data through runtime helpers that report to the detector (append, copy, maps).
// They are ordered among themselves through one private address, which adds no
// edge between goroutines that run library code.
var hSync uint64

func hsRelease() { runtime.RaceReleaseMerge(unsafe.Pointer(&hSync)) }
func hsAcquire() { runtime.RaceAcquire(unsafe.Pointer(&hSync)) }

// HBRelease / HBAcquire give the detector the happens-before edge that a real
// implementation's own lock would create between two of its goroutines.
func HBRelease(p unsafe.Pointer) { runtime.RaceReleaseMerge(p) }
func HBAcquire(p unsafe.Pointer) { runtime.RaceAcquire(p) }
