//go:build !race

package rt

import "unsafe"

func raceDisable() {}
func raceEnable()  {}

func ioRelease() {}
func ioAcquire() {}

func hsRelease() {}
func hsAcquire() {}

func HBRelease(p unsafe.Pointer) {}
func HBAcquire(p unsafe.Pointer) {}
