//go:build !race

package rt

func raceDisable() {}
func raceEnable()  {}

func ioRelease() {}
func ioAcquire() {}
