package h

// Independent 9P2000 / 9P2000.u codec for the harness (DESIGN.md §3.5).
// Table-driven; shares no code with go9p's packt.go / packr.go / unpack.go.

import (
	"errors"
	"fmt"
	"strings"
)

const (
	Tversion = 100 + iota
	Rversion
	Tauth
	Rauth
	Tattach
	Rattach
	Terror
	Rerror
	Tflush
	Rflush
	Twalk
	Rwalk
	Topen
	Ropen
	Tcreate
	Rcreate
	Tread
	Rread
	Twrite
	Rwrite
	Tclunk
	Rclunk
	Tremove
	Rremove
	Tstat
	Rstat
	Twstat
	Rwstat
)

const (
	NOTAG   = 0xFFFF
	NOFID   = 0xFFFFFFFF
	IOHDRSZ = 24
)

var typeNames = map[uint8]string{Tversion: "Tversion", Rversion: "Rversion", Tauth: "Tauth", Rauth: "Rauth", Tattach: "Tattach",
	Rattach: "Rattach", Rerror: "Rerror", Tflush: "Tflush", Rflush: "Rflush", Twalk: "Twalk", Rwalk: "Rwalk", Topen: "Topen", Ropen: "Ropen",
	Tcreate: "Tcreate", Rcreate: "Rcreate", Tread: "Tread", Rread: "Rread", Twrite: "Twrite", Rwrite: "Rwrite", Tclunk: "Tclunk",
	Rclunk: "Rclunk", Tremove: "Tremove", Rremove: "Rremove", Tstat: "Tstat", Rstat: "Rstat", Twstat: "Twstat", Rwstat: "Rwstat"}

func TypeName(t uint8) string {
	if n, ok := typeNames[t]; ok {
		return n
	}
	return fmt.Sprintf("type%d", t)
}

// layouts: name:kind, kinds 1 2 4 8 (ints), s (string), q (qid), d (count-prefixed data is
// written as count:4 then data:D), W (nwname[2] names), Q (nwqid[2] qids), S (stat with
// outer size[2]). A leading '?' marks a 9P2000.u-only field.
var layouts = map[uint8]string{
	Tversion: "msize:4 version:s",
	Rversion: "msize:4 version:s",
	Tauth:    "afid:4 uname:s aname:s ?nuname:4",
	Rauth:    "qid:q",
	Tattach:  "fid:4 afid:4 uname:s aname:s ?nuname:4",
	Rattach:  "qid:q",
	Rerror:   "ename:s ?errno:4",
	Tflush:   "oldtag:2",
	Rflush:   "",
	Twalk:    "fid:4 newfid:4 wname:W",
	Rwalk:    "wqid:Q",
	Topen:    "fid:4 mode:1",
	Ropen:    "qid:q iounit:4",
	Tcreate:  "fid:4 name:s perm:4 mode:1 ?ext:s",
	Rcreate:  "qid:q iounit:4",
	Tread:    "fid:4 offset:8 count:4",
	Rread:    "count:4 data:D",
	Twrite:   "fid:4 offset:8 count:4 data:D",
	Rwrite:   "count:4",
	Tclunk:   "fid:4",
	Rclunk:   "",
	Tremove:  "fid:4",
	Rremove:  "",
	Tstat:    "fid:4",
	Rstat:    "stat:S",
	Twstat:   "fid:4 stat:S",
	Rwstat:   "",
}

const statLayout = "type:2 dev:4 qid:q mode:4 atime:4 mtime:4 length:8 name:s uid:s gid:s muid:s ?ext:s ?nuid:4 ?ngid:4 ?nmuid:4"

type Qid struct {
	Type uint8
	Vers uint32
	Path uint64
}

type Stat struct {
	Size                 uint16 // as found on the wire (decode only)
	Type                 uint16
	Dev                  uint32
	Qid                  Qid
	Mode, Atime, Mtime   uint32
	Length               uint64
	Name, Uid, Gid, Muid string
	Ext                  string
	Nuid, Ngid, Nmuid    uint32
}

type Msg struct {
	Size     uint32
	StatSize int // > 0: the stat record's inner size field is overwritten with StatSize-1 (hostile peers only)
	Type     uint8
	Tag      uint16
	Msize    uint32
	Version  string
	Fid      uint32
	Afid     uint32
	Newfid   uint32
	Uname    string
	Aname    string
	Nuname   uint32
	Ename    string
	Errno    uint32
	Oldtag   uint16
	Wname    []string
	Wqid     []Qid
	Mode     uint8
	Perm     uint32
	Name     string
	Ext      string
	Qid      Qid
	Iounit   uint32
	Offset   uint64
	Count    uint32
	Data     []byte
	Stat     Stat
}

func (m *Msg) String() string {
	var b strings.Builder
	fmt.Fprintf(&b, "%s tag=%d", TypeName(m.Type), m.Tag)
	for _, f := range strings.Fields(layouts[m.Type]) {
		name := strings.TrimPrefix(f[:strings.IndexByte(f, ':')], "?")
		switch name {
		case "data":
			fmt.Fprintf(&b, " data[%d]", len(m.Data))
		case "stat":
			fmt.Fprintf(&b, " stat{%s mode=%o len=%d}", m.Stat.Name, m.Stat.Mode, m.Stat.Length)
		case "wname":
			fmt.Fprintf(&b, " wname=%q", m.Wname)
		case "wqid":
			fmt.Fprintf(&b, " nwqid=%d", len(m.Wqid))
		case "qid":
			fmt.Fprintf(&b, " qid=%x/%d", m.Qid.Type, m.Qid.Path)
		default:
			if p := m.strp(name); p != nil {
				s := *p
				if len(s) > 24 {
					s = s[:24] + "..."
				}
				fmt.Fprintf(&b, " %s=%q", name, s)
			} else {
				fmt.Fprintf(&b, " %s=%d", name, m.getInt(name))
			}
		}
	}
	return b.String()
}

func (m *Msg) getInt(name string) uint64 {
	switch name {
	case "msize":
		return uint64(m.Msize)
	case "fid":
		return uint64(m.Fid)
	case "afid":
		return uint64(m.Afid)
	case "newfid":
		return uint64(m.Newfid)
	case "nuname":
		return uint64(m.Nuname)
	case "errno":
		return uint64(m.Errno)
	case "oldtag":
		return uint64(m.Oldtag)
	case "mode":
		return uint64(m.Mode)
	case "perm":
		return uint64(m.Perm)
	case "iounit":
		return uint64(m.Iounit)
	case "offset":
		return m.Offset
	case "count":
		return uint64(m.Count)
	}
	panic("codec: no int field " + name)
}

func (m *Msg) setInt(name string, v uint64) {
	switch name {
	case "msize":
		m.Msize = uint32(v)
	case "fid":
		m.Fid = uint32(v)
	case "afid":
		m.Afid = uint32(v)
	case "newfid":
		m.Newfid = uint32(v)
	case "nuname":
		m.Nuname = uint32(v)
	case "errno":
		m.Errno = uint32(v)
	case "oldtag":
		m.Oldtag = uint16(v)
	case "mode":
		m.Mode = uint8(v)
	case "perm":
		m.Perm = uint32(v)
	case "iounit":
		m.Iounit = uint32(v)
	case "offset":
		m.Offset = v
	case "count":
		m.Count = uint32(v)
	default:
		panic("codec: no int field " + name)
	}
}

func (m *Msg) strp(name string) *string {
	switch name {
	case "version":
		return &m.Version
	case "uname":
		return &m.Uname
	case "aname":
		return &m.Aname
	case "ename":
		return &m.Ename
	case "name":
		return &m.Name
	case "ext":
		return &m.Ext
	}
	return nil
}

func (st *Stat) getInt(name string) uint64 {
	switch name {
	case "type":
		return uint64(st.Type)
	case "dev":
		return uint64(st.Dev)
	case "mode":
		return uint64(st.Mode)
	case "atime":
		return uint64(st.Atime)
	case "mtime":
		return uint64(st.Mtime)
	case "length":
		return st.Length
	case "nuid":
		return uint64(st.Nuid)
	case "ngid":
		return uint64(st.Ngid)
	case "nmuid":
		return uint64(st.Nmuid)
	}
	panic("codec: no stat int field " + name)
}

func (st *Stat) setInt(name string, v uint64) {
	switch name {
	case "type":
		st.Type = uint16(v)
	case "dev":
		st.Dev = uint32(v)
	case "mode":
		st.Mode = uint32(v)
	case "atime":
		st.Atime = uint32(v)
	case "mtime":
		st.Mtime = uint32(v)
	case "length":
		st.Length = v
	case "nuid":
		st.Nuid = uint32(v)
	case "ngid":
		st.Ngid = uint32(v)
	case "nmuid":
		st.Nmuid = uint32(v)
	default:
		panic("codec: no stat int field " + name)
	}
}

func (st *Stat) strp(name string) *string {
	switch name {
	case "name":
		return &st.Name
	case "uid":
		return &st.Uid
	case "gid":
		return &st.Gid
	case "muid":
		return &st.Muid
	case "ext":
		return &st.Ext
	}
	return nil
}

func putInt(b []byte, v uint64, n int) []byte {
	for i := 0; i < n; i++ {
		b = append(b, byte(v>>(8*uint(i))))
	}
	return b
}

func putStr(b []byte, s string) []byte {
	b = putInt(b, uint64(len(s)), 2)
	return append(b, s...)
}

func putQid(b []byte, q Qid) []byte {
	b = append(b, q.Type)
	b = putInt(b, uint64(q.Vers), 4)
	return putInt(b, q.Path, 8)
}

// EncodeStat returns size[2] + record.
func EncodeStat(st *Stat, dotu bool) []byte {
	var body []byte
	for _, f := range strings.Fields(statLayout) {
		opt := f[0] == '?'
		if opt {
			if !dotu {
				continue
			}
			f = f[1:]
		}
		i := strings.IndexByte(f, ':')
		name, kind := f[:i], f[i+1:]
		switch kind {
		case "1", "2", "4", "8":
			body = putInt(body, st.getInt(name), int(kind[0]-'0'))
		case "s":
			body = putStr(body, *st.strp(name))
		case "q":
			body = putQid(body, st.Qid)
		}
	}
	return append(putInt(nil, uint64(len(body)), 2), body...)
}

// Encode builds the wire form of m in the given dialect.
func Encode(m *Msg, dotu bool) []byte {
	lay, ok := layouts[m.Type]
	if !ok {
		panic(fmt.Sprintf("codec: no layout for type %d", m.Type))
	}
	b := make([]byte, 4, 64)
	b = append(b, m.Type)
	b = putInt(b, uint64(m.Tag), 2)
	for _, f := range strings.Fields(lay) {
		if f[0] == '?' {
			if !dotu {
				continue
			}
			f = f[1:]
		}
		i := strings.IndexByte(f, ':')
		name, kind := f[:i], f[i+1:]
		switch kind {
		case "1", "2", "4", "8":
			b = putInt(b, m.getInt(name), int(kind[0]-'0'))
		case "s":
			b = putStr(b, *m.strp(name))
		case "q":
			b = putQid(b, m.Qid)
		case "D":
			b = append(b, m.Data...)
		case "W":
			b = putInt(b, uint64(len(m.Wname)), 2)
			for _, w := range m.Wname {
				b = putStr(b, w)
			}
		case "Q":
			b = putInt(b, uint64(len(m.Wqid)), 2)
			for _, q := range m.Wqid {
				b = putQid(b, q)
			}
		case "S":
			s := EncodeStat(&m.Stat, dotu)
			b = putInt(b, uint64(len(s)), 2)
			if m.StatSize > 0 && len(s) >= 2 {
				// a hostile peer: the stat's own size[2] says something else than what follows
				s[0], s[1] = byte(m.StatSize-1), byte((m.StatSize-1)>>8)
			}
			b = append(b, s...)
		}
	}
	n := len(b)
	b[0], b[1], b[2], b[3] = byte(n), byte(n>>8), byte(n>>16), byte(n>>24)
	return b
}

type rd struct {
	b   []byte
	err error
}

func (r *rd) int(n int) uint64 {
	if r.err != nil {
		return 0
	}
	if len(r.b) < n {
		r.err = errors.New("short")
		return 0
	}
	var v uint64
	for i := 0; i < n; i++ {
		v |= uint64(r.b[i]) << (8 * uint(i))
	}
	r.b = r.b[n:]
	return v
}

func (r *rd) str() string {
	n := int(r.int(2))
	if r.err != nil {
		return ""
	}
	if len(r.b) < n {
		r.err = errors.New("short string")
		return ""
	}
	s := string(r.b[:n])
	r.b = r.b[n:]
	return s
}

func (r *rd) qid() Qid {
	var q Qid
	q.Type = uint8(r.int(1))
	q.Vers = uint32(r.int(4))
	q.Path = r.int(8)
	return q
}

// DecodeStat decodes size[2]+record from b, returning the bytes used. It
// requires the inner size to cover the record exactly.
func DecodeStat(b []byte, dotu bool) (*Stat, int, error) {
	r := &rd{b: b}
	st := &Stat{}
	st.Size = uint16(r.int(2))
	if r.err != nil {
		return nil, 0, r.err
	}
	if int(st.Size) > len(r.b) {
		return nil, 0, fmt.Errorf("stat size %d exceeds buffer %d", st.Size, len(r.b))
	}
	r.b = r.b[:st.Size]
	for _, f := range strings.Fields(statLayout) {
		if f[0] == '?' {
			if !dotu {
				continue
			}
			f = f[1:]
		}
		i := strings.IndexByte(f, ':')
		name, kind := f[:i], f[i+1:]
		switch kind {
		case "1", "2", "4", "8":
			st.setInt(name, r.int(int(kind[0]-'0')))
		case "s":
			*st.strp(name) = r.str()
		case "q":
			st.Qid = r.qid()
		}
	}
	if r.err != nil {
		return nil, 0, fmt.Errorf("stat record: %v", r.err)
	}
	if len(r.b) != 0 {
		return nil, 0, fmt.Errorf("stat record: %d stray bytes inside size", len(r.b))
	}
	return st, int(st.Size) + 2, nil
}

// Decode decodes exactly one complete frame (len(b) == size).
func Decode(b []byte, dotu bool) (*Msg, error) {
	r := &rd{b: b}
	m := &Msg{}
	m.Size = uint32(r.int(4))
	m.Type = uint8(r.int(1))
	m.Tag = uint16(r.int(2))
	if r.err != nil {
		return nil, errors.New("short header")
	}
	if int(m.Size) != len(b) {
		return nil, fmt.Errorf("size field %d != frame length %d", m.Size, len(b))
	}
	lay, ok := layouts[m.Type]
	if !ok {
		return nil, fmt.Errorf("unknown type %d", m.Type)
	}
	for _, f := range strings.Fields(lay) {
		if f[0] == '?' {
			if !dotu {
				continue
			}
			f = f[1:]
			// Tauth/Tattach n_uname is optional even in .u
			if len(r.b) == 0 && (m.Type == Tauth || m.Type == Tattach) {
				m.Nuname = 0xFFFFFFFF
				continue
			}
		}
		i := strings.IndexByte(f, ':')
		name, kind := f[:i], f[i+1:]
		switch kind {
		case "1", "2", "4", "8":
			m.setInt(name, r.int(int(kind[0]-'0')))
		case "s":
			*m.strp(name) = r.str()
		case "q":
			m.Qid = r.qid()
		case "D":
			if r.err == nil {
				if int(m.Count) != len(r.b) {
					r.err = fmt.Errorf("count %d != payload %d", m.Count, len(r.b))
				} else {
					m.Data = append([]byte(nil), r.b...)
					r.b = nil
				}
			}
		case "W":
			n := int(r.int(2))
			for j := 0; j < n && r.err == nil; j++ {
				m.Wname = append(m.Wname, r.str())
			}
		case "Q":
			n := int(r.int(2))
			for j := 0; j < n && r.err == nil; j++ {
				m.Wqid = append(m.Wqid, r.qid())
			}
		case "S":
			n := int(r.int(2))
			if r.err == nil {
				if n != len(r.b) {
					r.err = fmt.Errorf("stat[n] n=%d but %d bytes follow", n, len(r.b))
				} else {
					st, used, err := DecodeStat(r.b, dotu)
					if err != nil {
						r.err = err
					} else if used != n {
						r.err = fmt.Errorf("stat used %d of %d", used, n)
					} else {
						m.Stat = *st
						r.b = nil
					}
				}
			}
		}
	}
	if r.err != nil {
		return nil, fmt.Errorf("%s: %v", TypeName(m.Type), r.err)
	}
	if len(r.b) != 0 {
		return nil, fmt.Errorf("%s: %d trailing bytes", TypeName(m.Type), len(r.b))
	}
	return m, nil
}

// Framer splits a byte stream into frames by the size prefix.
type Framer struct {
	buf []byte
	Pos int // stream offset of buf[0]
}

func (f *Framer) Feed(b []byte) { f.buf = append(f.buf, b...) }

// Next returns the next complete frame, or nil. bad is set when the size
// prefix is < 7 (the stream cannot be framed any further).
func (f *Framer) Next() (frame []byte, start int, bad bool) {
	if len(f.buf) < 4 {
		return nil, 0, false
	}
	sz := int(uint32(f.buf[0]) | uint32(f.buf[1])<<8 | uint32(f.buf[2])<<16 | uint32(f.buf[3])<<24)
	if sz < 7 {
		return nil, f.Pos, true
	}
	if len(f.buf) < sz {
		return nil, 0, false
	}
	frame = append([]byte(nil), f.buf[:sz]...)
	start = f.Pos
	f.buf = f.buf[sz:]
	f.Pos += sz
	return frame, start, false
}
