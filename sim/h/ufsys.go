package h

// Ufs under simulation: the real Unix file server on a per-run scratch tree,
// reached through the simulated transport by the library client or by raw
// peers (DESIGN.md §3.5, §4 C14-C18).

import (
	"fmt"
	"os"
	"path/filepath"
	"sort"
	"strings"
	"syscall"

	"github.com/rminnich/go9p"
	"github.com/rminnich/go9p/vsim/rt"
)

type UfsSys struct {
	x     *Ctx
	Base  string // everything of this run lives below
	Outer string // parent of the exported root (canaries live here)
	Root  string // exported tree
	Ufs   *go9p.Ufs
	nconn int
	Conns []*SConn
	pipes []*rt.Conn
}

func scratchBase() string {
	if *fScratch != "" {
		return *fScratch
	}
	return os.TempDir()
}

// NewUfsSys creates outer/{canary, canarydir/, root/} and starts a Ufs on root.
func NewUfsSys(x *Ctx, srvMsize uint32, srvDotu bool, maxpend, debug int) *UfsSys {
	// a name of constant length: path names show up in error texts, and their
	// length must not vary between processes or replay would diverge
	base := filepath.Join(scratchBase(), fmt.Sprintf("ufs-%016x-%08d", x.C.Seed, os.Getpid()%100000000))
	os.RemoveAll(base)
	if err := os.MkdirAll(base, 0o755); err != nil {
		x.Trouble("scratch: %v", err)
		return nil
	}
	x.S.OSYield = true
	u := &UfsSys{x: x, Base: base, Outer: filepath.Join(base, "outer"), Root: filepath.Join(base, "outer", "root")}
	syscall.Umask(0)
	if err := os.MkdirAll(u.Root, 0o755); err != nil {
		x.Trouble("scratch: %v", err)
		return nil
	}
	ufs := new(go9p.Ufs)
	ufs.Dotu = srvDotu
	ufs.Msize = srvMsize
	ufs.Id = "ufs"
	ufs.Root = u.Root
	ufs.Maxpend = maxpend
	ufs.Debuglevel = debug &^ 3 // the printing bits only on request (cfg printdbg): the log goes to io.Discard, the formatting still runs
	if x.C.cfg("printdbg") != 0 {
		ufs.Debuglevel |= go9p.DbgPrintFcalls
	}
	if ufs.Debuglevel != 0 && x.C.Seed%2 == 0 {
		ufs.Log = go9p.NewLogger(64) // (the other half of the cases leaves the logger to the server, as most programs do)
	}
	if !ufs.Start(ufs) {
		x.Trouble("Ufs.Start failed")
	}
	u.Ufs = ufs
	return u
}

// CountFaults records how often the transport actually split or coalesced.
func (u *UfsSys) CountFaults() {
	for _, p := range u.pipes {
		u.x.FaultN("seg-split", p.In.Splits)
		u.x.FaultN("coalesce", p.In.Coalesced)
	}
}

func (u *UfsSys) Cleanup() {
	if u != nil && u.Base != "" {
		// make everything removable again
		filepath.Walk(u.Base, func(p string, fi os.FileInfo, err error) error {
			if err == nil && fi.IsDir() {
				os.Chmod(p, 0o755)
			}
			return nil
		})
		os.RemoveAll(u.Base)
	}
}

// pipe creates a connection whose server side is started by a host goroutine.
func (u *UfsSys) pipe(seg int, capacity int) (*rt.Conn, *rt.Conn, *rt.G) {
	cs, cc := rt.NewPipePair(0, fmt.Sprintf("srv%d", u.nconn), fmt.Sprintf("clnt%d", u.nconn))
	u.nconn++
	cs.Out.Cap = capacity
	cs.In.Seg, cc.In.Seg = seg, seg
	u.pipes = append(u.pipes, cs, cc)
	host := rt.Go(rt.SiteSpawn, func() {
		rt.SetName("ufs-connhost")
		u.Ufs.NewConn(cs)
	})
	return cs, cc, host
}

// Mount returns a library client mounted on the tree. Call from a simulated goroutine.
func (u *UfsSys) Mount(msize uint32, dotu bool, seg int, aname string) (*go9p.Clnt, *rt.Conn, error) {
	_, cc, _ := u.pipe(seg, 0)
	user := go9p.OsUsers.Uid2User(0)
	if dotu {
		clnt, err := go9p.MountConn(cc, aname, msize, user)
		return clnt, cc, err
	}
	clnt, err := go9p.Connect(cc, msize+IOHDRSZ, false)
	if err != nil {
		return nil, cc, err
	}
	fid, err := clnt.Attach(nil, user, aname)
	if err != nil {
		clnt.Unmount()
		return nil, cc, err
	}
	clnt.Root = fid
	return clnt, cc, nil
}

// Raw returns a raw peer connection (reader started).
func (u *UfsSys) Raw(seg int) *SConn {
	cs, cc, host := u.pipe(seg, 0)
	sc := &SConn{Idx: len(u.Conns), Srv: cs, Clnt: cc, Peer: NewClntPeer(u.x, cc), Host: host}
	u.Conns = append(u.Conns, sc)
	sc.Peer.StartReader()
	return sc
}

// RawAttach negotiates and attaches fid 0 to aname on a raw connection.
func rawAttach(p *ClntPeer, msize uint32, dotu bool, aname string) bool {
	ver := "9P2000"
	if dotu {
		ver = "9P2000.u"
	}
	if r := p.Call(&Msg{Type: Tversion, Tag: NOTAG, Msize: msize, Version: ver}); r == nil || r.M == nil || r.M.Type != Rversion {
		return false
	}
	r := p.Call(&Msg{Type: Tattach, Tag: 1, Fid: 0, Afid: NOFID, Uname: "root", Aname: aname, Nuname: 0})
	return r != nil && r.M != nil && r.M.Type == Rattach
}

// ---- tree generation ----

type tEntry struct {
	Rel    string // path relative to the root, "" for the root
	Kind   byte   // 'd' dir, 'f' file, 'l' symlink, 'h' hard link to another file
	Target string // symlink target / hard link source (relative path)
	Size   int
}

var nameAlphabet = []string{"a", "b", "data", "x y", "dots..", ".hidden", "ünï", "日本", "with-dash", "UPPER", "n1", "n2", "n3", "tmp.txt", "lib.so.1",
	"caf\xe9", "\xff\xfebom", "bad\x80\x81utf"} // the last three are not UTF-8: a file name is any bytes but '/' and NUL

func genName(r *Rand, i int) string {
	switch r.Intn(12) {
	case 0:
		return strings.Repeat("L", 250) + fmt.Sprintf("%05d", i)
	case 1:
		return fmt.Sprintf("%s%d", strings.Repeat("m", r.Range(30, 120)), i)
	}
	return fmt.Sprintf("%s-%d", nameAlphabet[r.Intn(len(nameAlphabet))], i)
}

// genTree describes a random tree: maxDepth levels, about n entries.
func genTree(r *Rand, n, maxDepth int, links bool) []tEntry {
	es := []tEntry{{Rel: "", Kind: 'd'}}
	dirs := []string{""}
	depth := map[string]int{"": 0}
	var files []string
	for i := 0; i < n; i++ {
		parent := dirs[r.Intn(len(dirs))]
		if r.Pct(40) {
			parent = dirs[len(dirs)-1] // grow deep chains
		}
		name := genName(r, i)
		rel := name
		if parent != "" {
			rel = parent + "/" + name
		}
		if len(rel) > 3500 {
			continue
		}
		switch k := r.Intn(10); {
		case k < 4 && depth[parent] < maxDepth:
			es = append(es, tEntry{Rel: rel, Kind: 'd'})
			dirs = append(dirs, rel)
			depth[rel] = depth[parent] + 1
		case k < 8 || !links:
			sz := r.Pick(0, 1, 10, 100, 5000)
			es = append(es, tEntry{Rel: rel, Kind: 'f', Size: sz})
			files = append(files, rel)
		case k == 8:
			// symlink inside the tree (relative target in the same directory, may dangle)
			tgt := "dangling-target"
			if len(files) > 0 && r.Bool() {
				tgt = filepath.Base(files[r.Intn(len(files))])
			}
			// or a link to a sibling directory: paths then lead through the link
			if r.Pct(50) {
				var sib []string
				for _, d := range dirs {
					if d != "" && filepath.Dir(d) == filepath.Dir(rel) && d != rel {
						sib = append(sib, d)
					}
				}
				if len(sib) > 0 {
					d := sib[r.Intn(len(sib))]
					es = append(es, tEntry{Rel: rel, Kind: 'l', Target: filepath.Base(d)})
					// virtual entries: what lies below the directory is also reachable through the link
					for _, e := range es {
						if strings.HasPrefix(e.Rel, d+"/") && e.Kind != 'v' {
							es = append(es, tEntry{Rel: rel + strings.TrimPrefix(e.Rel, d), Kind: 'v'})
						}
					}
					continue
				}
			}
			es = append(es, tEntry{Rel: rel, Kind: 'l', Target: tgt})
		default:
			if len(files) > 0 {
				es = append(es, tEntry{Rel: rel, Kind: 'h', Target: files[r.Intn(len(files))]})
			}
		}
	}
	return es
}

func fileContent(rel string, n int) []byte {
	h := uint64(7)
	for _, c := range []byte(rel) {
		h = h*131 + uint64(c)
	}
	return pattern(n, h, 1, 1)
}

func makeTree(root string, es []tEntry) error {
	for _, e := range es {
		p := filepath.Join(root, e.Rel)
		var err error
		switch e.Kind {
		case 'd':
			err = os.MkdirAll(p, 0o755)
		case 'f':
			err = os.WriteFile(p, fileContent(e.Rel, e.Size), 0o644)
		case 'l':
			err = os.Symlink(e.Target, p)
		case 'h':
			err = os.Link(filepath.Join(root, e.Target), p)
		case 'v':
			// reachable through a symbolic link to a directory; nothing to create
		}
		if err != nil {
			return err
		}
	}
	return nil
}

// snapshot describes a tree for comparison: path -> description.
func snapshotTree(root string, withMtime bool) map[string]string {
	out := map[string]string{}
	filepath.Walk(root, func(p string, fi os.FileInfo, err error) error {
		rel, _ := filepath.Rel(root, p)
		if err != nil {
			out[rel] = "ERR " + err.Error()
			return nil
		}
		d := fmt.Sprintf("%v %o", fi.Mode().Type(), fi.Mode().Perm())
		if sp := fi.Mode() & (os.ModeSetuid | os.ModeSetgid | os.ModeSticky); sp != 0 {
			d += fmt.Sprintf(" special=%v", sp)
		}
		if st, ok := fi.Sys().(*syscall.Stat_t); ok && (st.Uid != 0 || st.Gid != 0) {
			d += fmt.Sprintf(" owner=%d:%d", st.Uid, st.Gid)
		}
		switch {
		case fi.Mode()&os.ModeSymlink != 0:
			t, _ := os.Readlink(p)
			d += " -> " + t
		case fi.Mode().IsRegular():
			b, _ := os.ReadFile(p)
			d += fmt.Sprintf(" len=%d h=%x nlink=%d", len(b), fnvBytes(b), fi.Sys().(*syscall.Stat_t).Nlink)
		}
		if withMtime && rel != "." {
			d += fmt.Sprintf(" mtime=%d", fi.ModTime().Unix())
		}
		out[rel] = d
		return nil
	})
	return out
}

func diffSnap(a, b map[string]string) string {
	var keys []string
	seen := map[string]bool{}
	for k := range a {
		keys = append(keys, k)
		seen[k] = true
	}
	for k := range b {
		if !seen[k] {
			keys = append(keys, k)
		}
	}
	sort.Strings(keys)
	var d []string
	for _, k := range keys {
		if a[k] != b[k] {
			d = append(d, fmt.Sprintf("%q: %q vs %q", k, a[k], b[k]))
			if len(d) >= 4 {
				break
			}
		}
	}
	return strings.Join(d, "; ")
}
