package h

// C09 — client calls get their own reply, with distinct and recycled tags
// (DESIGN.md §4 C09). Real library client against the scripted server peer,
// which answers in scheduler-chosen order and segmentation.

import (
	"bytes"
	"fmt"
	"runtime"

	"github.com/rminnich/go9p"
	"github.com/rminnich/go9p/vsim/rt"
)

func init() { register(&Property{ID: "C09", Gen: c09Gen, Exec: c09Exec}) }

const (
	markErr   = uint64(1) << 32
	markWrong = uint64(2) << 32
)

func c09Gen(seed uint64, run int, tier string) *Case {
	r := NewRand(seed)
	c := &Case{Cfg: map[string]int64{}}
	genCommon(r, c.Cfg)
	ms := r.Pick(160, 256, 1024, 8192)
	c.Cfg["msize"], c.Cfg["smsize"] = int64(ms), int64(r.Pick(ms, ms, 4096))
	c.Cfg["dotu"], c.Cfg["sdotu"] = int64(r.Intn(2)), int64(r.Intn(2))
	c.Cfg["cap"] = int64(r.Pick(0, 0, 16, 200))
	c.Cfg["holdpct"] = int64(r.Pick(0, 20, 40, 70))
	every := 50
	if tier == "thorough" {
		every = 400
	}
	c.Cfg["maxsteps"] = 3000000
	if run%every == 0 {
		// many consecutive calls over one connection: tags and request slots must be recycled
		c.Stratum = "long-run"
		n := 10000
		if tier == "thorough" {
			n = 70000
		}
		c.Cfg["longrun"] = int64(n)
		c.Cfg["holdpct"], c.Cfg["debug"], c.Cfg["cap"] = 0, 0, 0
		c.Cfg["seg"] = rt.SegAll
		c.Cfg["maxsteps"] = int64(n)*80 + 100000
		c.Cfg["lrcallers"] = int64(r.Pick(1, 1, 3))
		if (tier == "thorough" && run%(2*every) == every) || (tier != "thorough" && run%1000 == 350) {
			// more calls than there are tag values, every one answered with Rerror: the slots of failed calls are
			// recycled like the others
			c.Stratum = "long-run-errors"
			c.Cfg["lrerr"] = 1
			c.Cfg["lrcallers"] = 1
			c.Cfg["longrun"] = 70000
			c.Cfg["maxsteps"] = 70000*80 + 100000
			return c
		}
		if (tier == "thorough" && run%(4*every) == 2*every) || (tier != "thorough" && run%1000 == 600) {
			// the wide long run again, with the garbage collector running twice between rounds: whatever caches the
			// client keeps idle request slots in, a collection must not cost it their tags
			c.Stratum = "long-run-wide-gc"
			c.Cfg["lrcallers"], c.Cfg["lrwidth"], c.Cfg["lrgc"] = 1, 64, 1
			c.Cfg["longrun"] = 72000
			c.Cfg["maxsteps"] = 72000*60 + 100000
			return c
		}
		if run%(2*every) == 0 && (tier == "thorough" || run%1000 == 100) {
			// wide long run: 64 requests in flight at a time, so that most request slots overflow the client's
			// 16-slot cache and their tags go back through the pool; more than 65 535 such frees must not exhaust it
			c.Stratum = "long-run-wide"
			c.Cfg["lrcallers"], c.Cfg["lrwidth"] = 1, 64
			c.Cfg["longrun"] = 100000
			c.Cfg["maxsteps"] = 100000*60 + 100000
		}
		return c
	}
	c.Stratum = "concurrent"
	// (pipelines of msize-sized replies read a byte or a few at a time take millions of steps: with segmentation
	// that fine and msize >= 1024 the deep Tag pipelines read 30 bytes instead; seen as 'step budget exhausted')
	exactMsize := -1
	if ms >= 1024 && (c.Cfg["seg"] == rt.SegOne || c.Cfg["seg"] == rt.SegTiny) {
		exactMsize = 30
	}
	maxCallers := 16
	if tier == "thorough" {
		maxCallers = 64
	}
	n := r.Pick(1, 2, 4, 8, maxCallers)
	for i := 0; i < n; i++ {
		var ops []Op
		for k := r.Range(2, 8); k > 0; k-- {
			off := int64(len(ops)*4096 + r.Intn(100))
			switch r.Intn(16) {
			case 14, 15:
				ops = append(ops, Op{K: "misc", A: []int64{int64(r.Intn(3))}})
			case 12, 13:
				// the non-blocking interface with the caller's own completion channel
				ops = append(ops, Op{K: "rpcnb", A: []int64{int64(len(ops)), int64(r.Intn(3))}})
			case 10, 11:
				ops = append(ops, Op{K: "helper", A: []int64{int64(r.Intn(6))}})
			case 0, 1, 2, 3:
				ops = append(ops, Op{K: "read", A: []int64{off, int64(r.Pick(0, 1, 40, ms/2, ms))}})
			case 4:
				ops = append(ops, Op{K: "write", A: []int64{off, int64(r.Pick(0, 9, ms/2))}})
			case 5:
				ops = append(ops, Op{K: "stat"})
			case 6:
				ops = append(ops, Op{K: "walk", A: []int64{int64(r.Intn(4))}})
			case 7:
				ops = append(ops, Op{K: "readerr", A: []int64{off | int64(markErr), 10}})
			case 8:
				ops = append(ops, Op{K: "readwrong", A: []int64{off | int64(markWrong), 10}})
			case 9:
				ops = append(ops, Op{K: "tagreads", A: []int64{int64(len(ops)), int64(r.Pick(2, 3, 4, 5, 6, 6, 20, 24)), int64(r.Pick(1, 8, 30, exactMsize)), int64(r.Intn(3)), int64(r.Intn(4))}}) // up to 24 deep: more than the Tag's own 16-slot completion queue
			}
		}
		c.Ops = append(c.Ops, Op{K: "caller", Sub: ops})
	}
	return c
}

func c09Exec(x *Ctx) {
	c := x.C
	msize := uint32(c.cfg("msize"))
	go9p.DefaultDebuglevel = int(c.cfg("debug"))
	go9p.DefaultLogger = nil
	if go9p.DefaultDebuglevel != 0 {
		go9p.DefaultLogger = go9p.NewLogger(64)
	}
	cs, cc := rt.NewPipePair(0, "srv", "clnt")
	cc.Out.Cap = int(c.cfg("cap"))
	cc.In.Seg, cs.In.Seg = int(c.cfg("seg")), int(c.cfg("seg"))
	peer := NewSrvPeer(x, cs, uint32(c.cfg("smsize")), c.cfg("sdotu") != 0)
	st := &c10State{x: x, keyOcc: map[string]int{}, tagOrder: true}
	holdpct := int(c.cfg("holdpct"))
	distinctTags := map[uint16]bool{}
	sharedIssue := map[uint16][]uint64{} // per shared tag: offsets in arrival order
	peer.Handle = func(p *SrvPeer, r *PReq) {
		m := r.M
		rep := StdReply(m, p.Msize, c.cfg("sdotu") != 0)
		if m.Type == Twrite && !bytes.Equal(m.Data, pattern(len(m.Data), uint64(m.Fid), m.Offset, 7)) {
			x.Violate("req-corrupt", "Twrite payload arrived altered (fid %d offset %d)", m.Fid, m.Offset)
		}
		if m.Type == Tversion {
			p.Dotu = rep.Version == "9P2000.u"
			p.Send(r, Encode(rep, false))
			return
		}
		distinctTags[m.Tag] = true
		for _, pf := range st.pipeFids {
			if pf == m.Fid && (m.Type == Tstat || (m.Type == Tread && m.Offset >= 1<<40 && m.Offset&(markErr|markWrong) == 0)) {
				// a pipeline of several request kinds under one tag: answered at once, in arrival order
				p.SharedTags[m.Tag] = true
				p.Send(r, Encode(rep, p.Dotu))
				return
			}
		}
		if m.Type == Tread && m.Offset >= 1<<40 && m.Offset&(markErr|markWrong) != 0 {
			// a pipelined (Tag interface) or non-blocking read that the server refuses / answers with the wrong type
			p.SharedTags[m.Tag] = true
			if m.Offset&markErr != 0 {
				txt, num := errFor(m.Offset)
				rep = &Msg{Type: Rerror, Tag: m.Tag, Ename: txt, Errno: num}
				x.Fault("rerror-reply")
			} else {
				rep = &Msg{Type: Rwrite, Tag: m.Tag, Count: 3}
				x.Fault("wrong-type-reply")
			}
			p.Send(r, Encode(rep, p.Dotu))
			return
		}
		if m.Type == Tread && m.Offset >= 1<<40 {
			// pipelined Tag interface: deliberately shared tag, answered in arrival order
			p.SharedTags[m.Tag] = true
			sharedIssue[m.Tag] = append(sharedIssue[m.Tag], m.Offset)
			p.Send(r, Encode(rep, p.Dotu))
			return
		}
		if m.Type == Tread && m.Offset&markErr != 0 {
			txt, num := errFor(m.Offset)
			rep = &Msg{Type: Rerror, Tag: m.Tag, Ename: txt, Errno: num}
			x.Fault("rerror-reply")
		} else if m.Type == Tread && m.Offset&markWrong != 0 {
			rep = &Msg{Type: Rwrite, Tag: m.Tag, Count: 3}
			x.Fault("wrong-type-reply")
		}
		if m.Type != Tattach && holdpct > 0 && rt.Choose(100) < holdpct {
			r.Hold = true
			x.Fault("hold")
		}
		p.SendLater(r, Encode(rep, p.Dotu))
	}
	// the Tag interface's first request on a tag looks like any other: allow the duplicate check to learn
	peer.Start()
	longrun := int(c.cfg("longrun"))
	rt.Go(rt.SiteSpawn, func() {
		rt.SetName("main")
		if c.Seed%3 == 0 && longrun == 0 {
			// the process has had another client before this one (its own connection, a few calls, unmounted):
			// whatever a client keeps for reuse, it keeps for itself
			ds, dc := rt.NewPipePair(0, "srv-decoy", "clnt-decoy")
			dpeer := NewSrvPeer(x, ds, 8192, false)
			dpeer.NoDupCheck = true
			dpeer.Handle = func(p *SrvPeer, r *PReq) { p.Send(r, Encode(StdReply(r.M, p.Msize, false), false)) }
			dpeer.Start()
			if dclnt, err := go9p.Connect(dc, 8192, false); err == nil {
				if dfid, err := dclnt.Attach(nil, go9p.OsUsers.Uid2User(0), ""); err == nil {
					for k := 0; k < 5; k++ {
						dclnt.Stat(dfid)
					}
				}
				dclnt.Unmount()
				x.Probe("another-client-in-the-process-before")
			}
		}
		clnt, err := go9p.Connect(cc, msize, c.cfg("dotu") != 0)
		if err == nil {
			var fid *go9p.Fid
			if fid, err = clnt.Attach(nil, go9p.OsUsers.Uid2User(0), ""); err == nil {
				clnt.Root = fid
			}
		}
		if err != nil {
			x.Violate("c0-mount", "mount failed without any fault: %v", err)
			return
		}
		st.clnt = clnt
		if longrun > 0 {
			k := int(c.cfg("lrcallers"))
			if w := int(c.cfg("lrwidth")); w > 0 {
				// one caller keeps w requests in flight through the non-blocking interface and frees them together:
				// all but 16 of the slots overflow the client's cache in every round
				g := rt.Go(rt.SiteSpawn, func() {
					rt.SetName("longrun-wide")
					done := make(chan *go9p.Req, w)
					want := statFor(clnt.Root.Fid).Name
					for i := 0; i < longrun; i += w {
						reqs := make([]*go9p.Req, w)
						for j := range reqs {
							r := clnt.ReqAlloc()
							r.Tc = clnt.NewFcall()
							r.Done = done
							if err := go9p.PackTstat(r.Tc, clnt.Root.Fid); err == nil {
								err = clnt.Rpcnb(r)
							}
							if err != nil {
								x.Violate("c1-failed", "request %d of the wide long run could not be issued: %v", i+j, err)
								return
							}
							reqs[j] = r
						}
						for range reqs {
							r := <-done
							if r.Err != nil || r.Rc == nil || r.Rc.Type != go9p.Rstat || r.Rc.Dir.Name != want {
								x.Violate("c1-content", "a call of round %d of the wide long run failed or returned a wrong stat: %v", i/w, r.Err)
								return
							}
						}
						for _, r := range reqs {
							clnt.ReqFree(r)
						}
						if c.cfg("lrgc") != 0 {
							runtime.GC()
							runtime.GC()
							x.Fault("gc-between-rounds")
						}
					}
				})
				st.gs = append(st.gs, g)
				return
			}
			for j := 0; j < k; j++ {
				j := j
				g := rt.Go(rt.SiteSpawn, func() {
					rt.SetName(fmt.Sprintf("longrun%d", j))
					for i := j; i < longrun; i += k {
						if c.cfg("lrerr") != 0 {
							off := markErr | uint64(i)
							if _, err := clnt.Read(clnt.Root, off, 10); err == nil {
								x.Violate("c1-content", "call %d of the long run was answered with Rerror but returned success", i)
								return
							} else if e, ok := err.(*go9p.Error); !ok || e.Err != func() string { t, _ := errFor(off); return t }() {
								x.Violate("c1-content", "call %d of the long run: Rerror text came back as %v", i, err)
								return
							}
							continue
						}
						d, err := clnt.Stat(clnt.Root)
						if err != nil || d.Name != statFor(clnt.Root.Fid).Name {
							x.Violate("c1-content", "call %d of the long run failed or returned a wrong stat: %v", i, err)
							return
						}
					}
				})
				st.gs = append(st.gs, g)
			}
			return
		}
		for ci, op := range c.Ops {
			if op.K != "caller" {
				continue
			}
			ci, op := ci, op
			g := rt.Go(rt.SiteSpawn, func() {
				rt.SetName(fmt.Sprintf("caller%d", ci))
				st.runCallerOps(ci, op.Sub, false)
			})
			st.gs = append(st.gs, g)
		}
	})
	// run; release withheld replies one at a time in scheduler-chosen order
	for {
		if !x.Run() {
			return
		}
		var held []*PReq
		for _, r := range peer.Reqs {
			if r.Hold {
				held = append(held, r)
			}
		}
		if len(held) == 0 {
			break
		}
		if len(held) >= 5 {
			x.Probe("5+-replies-withheld")
		}
		k := x.S.Choose(len(held))
		if k != 0 {
			x.Probe("replies-delivered-out-of-order")
		}
		held[k].Hold = false
	}
	// ---- oracle ----
	for _, g := range st.gs {
		if !g.Done() {
			x.Violate("c2-hang", "caller %s (%s) never returned although every request was answered: %s", g.ID, g.Name, x.S.Describe(g))
		}
	}
	for _, cl := range st.calls {
		if !cl.Returned {
			continue
		}
		if cl.Bad != "" {
			x.Violate("c1-content", "call %s by caller %d: %s", cl.Kind, cl.Caller, cl.Bad)
		} else if cl.Err != nil {
			x.Violate("c1-failed", "call %s by caller %d failed with %v although the server answered it", cl.Kind, cl.Caller, cl.Err)
		}
	}
	if peer.MaxOutst >= 8 {
		x.Probe("8+-calls-outstanding")
	}
	if peer.MaxOutst >= 32 {
		x.Probe("32+-calls-outstanding")
	}
	if peer.TagReuse > 0 {
		x.Probe("tag-value-reused-after-free")
	}
	// "tags and request slots are recycled so that an unbounded number of calls can be made": decided by the
	// long runs themselves (more calls than there are tag values, in the wide run also more tag-pool round trips);
	// how many different values a correct client uses on the way is its own business
	x.ProbeN("calls", len(peer.Reqs))
	x.ProbeN("distinct-tag-values", len(distinctTags))
	x.FaultN("seg-split", cc.In.Splits+cs.In.Splits)
	x.FaultN("coalesce", cc.In.Coalesced+cs.In.Coalesced)
}
