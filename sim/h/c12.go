package h

// C12 — version and msize negotiation is honoured in both directions
// (DESIGN.md §4 C12).

import (
	"bytes"
	"fmt"
	"os"
	"path/filepath"
	"strings"

	"github.com/rminnich/go9p"
	"github.com/rminnich/go9p/vsim/rt"
)

func init() { register(&Property{ID: "C12", Gen: c12Gen, Exec: c12Exec}) }

const goMSIZE = 1048576 + 24

var c12SrvMsizes = []int64{0, 24, 25, 64, 300, 8192, goMSIZE}
var c12Versions = []string{"9P2000", "9P2000.u", "9P2000.L", "", "unknown"}

func c12ClientMsizes(sm int64) []int64 {
	if sm < 24 {
		sm = goMSIZE
	}
	return []int64{0, 23, 24, 25, sm - 1, sm, sm + 1, 0xFFFFFFFF, 200, 4096}
}

func c12Gen(seed uint64, run int, tier string) *Case {
	r := NewRand(seed)
	c := &Case{Cfg: map[string]int64{}}
	genCommon(r, c.Cfg)
	c.Cfg["maxsteps"] = 2000000
	c.Cfg["maxpend"] = int64(r.Pick(0, 2, 64))
	k := run / 4
	if run%20 == 11 {
		c.Stratum = "ufs-read-count"
		c.Cfg["ufsread"] = 1
		c.Cfg["cmsize"] = int64(r.Pick(256, 512, 1024, 4096, 8192))
		c.Cfg["smsize"] = int64(r.Pick(512, 8192))
		c.Cfg["dotu"] = int64(r.Intn(2))
		c.Cfg["nfiles"] = int64(r.Pick(0, 1, 2, 5, 9, 30))
		return c
	}
	if run%20 == 7 {
		// an implementation with authentication: reads of the authentication fid carry no more than was asked for
		c.Stratum = "auth-read-count"
		c.Cfg["authread"] = 1
		c.Cfg["cmsize"] = int64(r.Pick(256, 1024, 8192))
		c.Cfg["dotu"] = int64(r.Intn(2))
		return c
	}
	if run%20 == 15 {
		// a file server that answers Tstat from one long-lived Dir per file (the library's Fsrv does), and two
		// connections that negotiated different dialects: each gets its stat in its own
		c.Stratum = "kept-dir-two-dialects"
		c.Cfg["keptdir"], c.Cfg["sharedir"] = 1, 1
		c.Cfg["first"] = int64(r.Intn(2))
		c.Cfg["rounds"] = int64(r.Range(2, 5))
		return c
	}
	switch run % 4 {
	case 0, 1: // negotiation grid + battery / bad frames
		sm := c12SrvMsizes[k%len(c12SrvMsizes)]
		k /= len(c12SrvMsizes)
		cms := c12ClientMsizes(sm)
		cm := cms[k%len(cms)]
		k /= len(cms)
		c.Cfg["smsize"], c.Cfg["cmsize"] = sm, cm
		c.Cfg["sdotu"] = int64(k % 2)
		k /= 2
		c.Cfg["ver"] = int64(k % len(c12Versions))
		c.Stratum = "grid"
		if run%4 == 1 {
			c.Stratum = "bad-frame"
			c.Cfg["badframe"] = 1
			c.Cfg["badsize"] = int64(r.Pick(0, 1, 4, 6, -1, -2, -3, -4)) // negative: relative to msize (-1: msize+1, -2: 8*msize+1, -3: 2^32-1, -4: 2^31)
			c.Cfg["badbody"] = int64(r.Pick(0, 0, 50, 5000))
			c.Cfg["badcut"] = int64(r.Pick(0, 0, 0, 5, 6))                                                // only the first 5 or 6 bytes of the bad frame arrive, then the peer waits
			c.Cfg["badtype"] = int64(r.Pick(Tclunk, Tclunk, Tversion, Tversion, Tflush, Tattach, Rclunk)) // the size rule is for every frame, whatever type it claims
			if c.Cfg["cmsize"] < 24 {
				c.Cfg["cmsize"] = 256
			}
		}
	case 2:
		c.Stratum = "client"
		c.Cfg["client"] = 1
		c.Cfg["cmsize"] = int64(r.Pick(128, 256, 8192, 65536))
		c.Cfg["rmsize"] = int64(r.Pick(64, 128, 255, 256, 257, 8192, 1<<20, 0xFFFFFFFF))
		c.Cfg["dotu"] = int64(r.Intn(2))
		c.Cfg["ver"] = int64(k % len(c12Versions))
	case 3:
		c.Stratum = "renegotiate"
		c.Cfg["reneg"] = 1
		c.Cfg["smsize"] = int64(r.Pick(8192, 16384, 0))
		c.Cfg["cmsize"] = int64(r.Pick(2048, 4096, 8192))
		c.Cfg["cmsize2"] = int64(r.Pick(64, 128, 200, 1024))
		c.Cfg["sdotu"] = int64(r.Intn(2))
		c.Cfg["ver"] = int64(r.Intn(2))
		c.Cfg["ver2"] = int64(r.Intn(2))
		c.Cfg["prefill"] = int64(r.Range(1, 12))
		c.Cfg["heldat"] = int64(r.Intn(3))
		c.Cfg["pipelined"] = int64(r.Pick(0, 1, 2)) // 1: the request provoking a large reply, 2: an oversize frame shares the transport write with the second Tversion
	}
	return c
}

type c12Sys struct {
	x   *Ctx
	sys *SrvSys
	fs  *ScriptFS
	// per fid/offset scripted sizes
	statLen map[uint32]int
	errLen  map[uint32]int
}

// c12UfsRead: the real Unix file server answers Treads of files and directories with every kind of count: no reply
// carries more data than its Tread asked for, and none is longer than the negotiated msize.
func c12UfsRead(x *Ctx) {
	c := x.C
	u := NewUfsSys(x, uint32(c.cfg("smsize")), true, 2, 0)
	if u == nil {
		return
	}
	defer u.Cleanup()
	r := NewRand(c.Seed ^ 0xC12F)
	os.WriteFile(filepath.Join(u.Root, "data"), bytes.Repeat([]byte("0123456789abcdef"), 700), 0o644)
	os.MkdirAll(filepath.Join(u.Root, "d"), 0o755)
	for i := int(c.cfg("nfiles")); i > 0; i-- {
		os.WriteFile(filepath.Join(u.Root, "d", fmt.Sprintf("entry-%d-%s", i, strings.Repeat("x", r.Intn(30)))), []byte("x"), 0o644)
	}
	sc := u.Raw(int(c.cfg("seg")))
	p := sc.Peer
	finished := false
	rt.Go(rt.SiteSpawn, func() {
		rt.SetName("raw-client")
		ver := "9P2000"
		if c.cfg("dotu") != 0 {
			ver = "9P2000.u"
		}
		vr := p.Call(&Msg{Type: Tversion, Tag: NOTAG, Msize: uint32(c.cfg("cmsize")), Version: ver})
		if vr == nil || vr.M == nil || vr.M.Type != Rversion {
			x.Violate("setup", "Tversion failed")
			return
		}
		nm := vr.M.Msize
		tag := uint16(0)
		call := func(m *Msg) *Msg {
			tag++
			m.Tag = tag
			rr := p.Call(m)
			if rr == nil || rr.M == nil {
				x.Violate("m0-stalled", "%s got no reply", m)
				return nil
			}
			if uint32(len(rr.Raw)) > nm {
				x.Violate("m2-oversize-reply", "after negotiating msize %d the file server sent a %d-byte %s", nm, len(rr.Raw), TypeName(rr.Raw[4]))
			}
			return rr.M
		}
		if m := call(&Msg{Type: Tattach, Fid: 0, Afid: NOFID, Uname: "root", Nuname: 0}); m == nil || m.Type != Rattach {
			x.Violate("setup", "Tattach failed")
			return
		}
		for fi, names := range [][]string{{"data"}, {"d"}, nil} {
			fid := uint32(fi + 1)
			if m := call(&Msg{Type: Twalk, Fid: 0, Newfid: fid, Wname: names}); m == nil || m.Type != Rwalk {
				return
			}
			if m := call(&Msg{Type: Topen, Fid: fid, Mode: 0}); m == nil || m.Type != Ropen {
				return
			}
			off := uint64(0)
			for k := 0; k < 12; k++ {
				cnt := uint32(r.Pick(0, 1, 7, 40, 60, 61, 80, 100, 200, 231, 232, 300, 1000, int(nm)-25, int(nm)-24))
				if int64(cnt) > int64(nm)-24 {
					cnt = nm - 24
				}
				if names != nil && names[0] == "data" && r.Pct(50) {
					off = uint64(r.Intn(11000))
				}
				m := call(&Msg{Type: Tread, Fid: fid, Offset: off, Count: cnt})
				if m == nil {
					return
				}
				if m.Type == Rread {
					if uint32(len(m.Data)) > cnt {
						x.Violate("m4-more-than-asked", "Tread of %v at offset %d asking for %d bytes was answered with %d bytes", names, off, cnt, len(m.Data))
					}
					off += uint64(len(m.Data))
					x.Probe("ufs-read-answered")
					if len(m.Data) == 0 && (names == nil || names[0] != "data") {
						off = 0 // the listing is through: start again
					}
				} else if names == nil || names[0] != "data" {
					x.Probe("ufs-directory-read-refused") // count too small for the next entry
				}
			}
		}
		finished = true
	})
	if !x.Run() {
		return
	}
	u.CountFaults()
	if !finished && len(x.Res.Viol) == 0 {
		x.Violate("m0-stalled", "the session did not finish")
	}
}

func c12AuthRead(x *Ctx) {
	c := x.C
	fs := NewScriptFS(x)
	fs.PlanFor = func(inv *Inv) *Plan { return &Plan{NWqid: -1, NData: -1, QType: 0x80} }
	sys := NewSrvSys(x, fs.OpsValue(true, false), fs, 8192, true, 2, 0)
	sc := sys.AddConn(0, int(c.cfg("seg")))
	p := sc.Peer
	r := NewRand(c.Seed ^ 0xA07)
	done := false
	rt.Go(rt.SiteSpawn, func() {
		rt.SetName("client")
		ver := []string{"9P2000", "9P2000.u"}[int(c.cfg("dotu"))%2]
		vr := p.Call(&Msg{Type: Tversion, Tag: NOTAG, Msize: uint32(c.cfg("cmsize")), Version: ver})
		if vr == nil || vr.M == nil || vr.M.Type != Rversion {
			x.Violate("m1-version", "Tversion answered %v", vr)
			return
		}
		nm := vr.M.Msize
		if ar := p.Call(&Msg{Type: Tauth, Tag: 1, Afid: 5, Uname: "u1", Nuname: 1}); ar == nil || ar.M == nil || ar.M.Type != Rauth {
			x.Violate("setup", "Tauth answered %v", ar)
			return
		}
		for k := 0; k < 10; k++ {
			cnt := uint32(r.Pick(0, 1, 8, 100, 141, int(nm)-25, int(nm)-24))
			rr := p.Call(&Msg{Type: Tread, Tag: uint16(10 + k), Fid: 5, Offset: uint64(r.Intn(300)), Count: cnt})
			if rr == nil || rr.M == nil {
				x.Violate("m0-stalled", "Tread on the authentication fid got no reply")
				return
			}
			if uint32(len(rr.Raw)) > nm {
				x.Violate("m2-oversize-reply", "after negotiating msize %d the server sent a %d-byte %s", nm, len(rr.Raw), TypeName(rr.Raw[4]))
			}
			if rr.M.Type == Rread && uint32(len(rr.M.Data)) > cnt {
				x.Violate("m4-more-than-asked", "Tread on the authentication fid asking for %d bytes was answered with %d bytes", cnt, len(rr.M.Data))
			}
		}
		x.Probe("auth-fid-read")
		done = true
	})
	if !x.Run() {
		return
	}
	if !done && len(x.Res.Viol) == 0 {
		x.Violate("m0-stalled", "the session did not finish")
	}
}

func c12KeptDir(x *Ctx) {
	c := x.C
	fs := NewScriptFS(x)
	fs.PlanFor = func(inv *Inv) *Plan { return &Plan{NWqid: -1, NData: -1, QType: 0x80} }
	sys := NewSrvSys(x, fs, fs, 8192, true, 2, 0)
	a := sys.AddConn(0, int(c.cfg("seg")))
	b := sys.AddConn(0, int(c.cfg("seg")))
	done := false
	rt.Go(rt.SiteSpawn, func() {
		rt.SetName("client")
		conns := []*SConn{a, b}
		if c.cfg("first") != 0 {
			conns = []*SConn{b, a}
		}
		for i, sc := range conns {
			ver := []string{"9P2000.u", "9P2000"}[i]
			if r := sc.Peer.Call(&Msg{Type: Tversion, Tag: NOTAG, Msize: 8192, Version: ver}); r == nil || r.M == nil || r.M.Type != Rversion || r.M.Version != ver {
				x.Violate("m1-dialect", "Tversion(%q) answered %v", ver, r)
				return
			}
			if r := sc.Peer.Call(&Msg{Type: Tattach, Tag: 1, Fid: 0, Afid: NOFID, Uname: "u1", Nuname: 1}); r == nil || r.M == nil || r.M.Type != Rattach {
				x.Violate("setup", "Tattach failed")
				return
			}
		}
		for round := 0; round < int(c.cfg("rounds")); round++ {
			for i, sc := range conns {
				r := sc.Peer.Call(&Msg{Type: Tstat, Tag: uint16(10 + round), Fid: 0})
				if r == nil || r.M == nil {
					x.Violate("m0-stalled", "Tstat on the connection that negotiated %s got no (decodable) reply", []string{"9P2000.u", "9P2000"}[i])
					return
				}
				if r.M.Type != Rstat || r.M.Stat.Name != "kept-by-the-file-server" || r.M.Stat.Muid != "muid" || (sc.Peer.Dotu && r.M.Stat.Nmuid != 3) {
					x.Violate("m3-stat", "Tstat on the connection that negotiated %s answered %s", []string{"9P2000.u", "9P2000"}[i], r.M)
				}
				if _, err := Decode(r.Raw, !sc.Peer.Dotu); err == nil {
					x.Violate("m3-dialect", "an Rstat sent after negotiating dotu=%v also parses in the other dialect", sc.Peer.Dotu)
				}
			}
		}
		x.Probe("kept-dir-stat-in-two-dialects")
		done = true
	})
	if !x.Run() {
		return
	}
	if !done && len(x.Res.Viol) == 0 {
		x.Violate("m0-stalled", "the session did not finish")
	}
}

func c12Exec(x *Ctx) {
	if x.C.cfg("keptdir") != 0 {
		c12KeptDir(x)
		return
	}
	if x.C.cfg("authread") != 0 {
		c12AuthRead(x)
		return
	}
	if x.C.cfg("ufsread") != 0 {
		c12UfsRead(x)
		return
	}
	if x.C.cfg("client") != 0 {
		c12Client(x)
		return
	}
	c := x.C
	fs := NewScriptFS(x)
	st := &c12Sys{x: x, fs: fs, statLen: map[uint32]int{}, errLen: map[uint32]int{}}
	fs.PlanFor = func(inv *Inv) *Plan {
		p := &Plan{NWqid: -1, NData: -1}
		if inv.Op == "attach" {
			p.QType = 0x80
		}
		if inv.Op == "walk" && len(inv.Req.Tc.Wname) > 1 {
			p.QType = 0x80
		}
		if inv.Op == "stat" {
			p.StatNameLen = st.statLen[uint32(inv.Tag)]
		}
		if inv.Op == "wstat" {
			p.Err = true
			p.ErrLen = st.errLen[uint32(inv.Tag)]
		}
		if inv.Op == "read" && inv.Req.Tc.Offset == 999 {
			p.Mode = PHold
		}
		return p
	}
	smsize := uint32(c.cfg("smsize"))
	sdotu := c.cfg("sdotu") != 0
	st.sys = NewSrvSys(x, fs, fs, smsize, sdotu, int(c.cfg("maxpend")), int(c.cfg("debug")))
	eff := int64(smsize)
	if eff < 24 {
		eff = goMSIZE
	}
	seg := int(c.cfg("seg"))
	if eff > 20000 && (seg == rt.SegOne || seg == rt.SegTiny) {
		seg = rt.SegRandom // megabyte frames one byte at a time cost millions of steps and add nothing here
	}
	sc := st.sys.AddConn(0, seg)
	by := st.sys.AddConn(0, seg)
	peer := sc.Peer
	negotiated := int64(-1)
	peer.OnReply = func(r *Recvd) {
		if r.M != nil && r.M.Type == Rversion {
			negotiated = int64(r.M.Msize)
		}
		if negotiated > 0 && int64(len(r.Raw)) > negotiated {
			x.Violate("m2-oversize-reply", "after negotiating msize %d the server sent a %d-byte %s", negotiated, len(r.Raw), TypeName(r.Raw[4]))
		}
		if r.M != nil && (r.M.Type == Rstat || r.M.Type == Rerror) && negotiated > 0 {
			if _, err := Decode(r.Raw, !peer.Dotu); err == nil && r.M.Type == Rstat {
				x.Violate("m3-dialect", "an Rstat sent after negotiating dotu=%v also parses in the other dialect", peer.Dotu)
			}
		}
	}
	cm := c.cfg("cmsize")
	ver := c12Versions[int(c.cfg("ver"))%len(c12Versions)]
	done := false
	var byReply *Recvd
	rt.Go(rt.SiteSpawn, func() {
		rt.SetName("client")
		defer func() { done = true }()
		nm, ok := st.version(peer, cm, ver, eff, sdotu)
		if !ok && uint32(cm) < 24 && !peer.EOF && len(x.Res.Viol) == 0 {
			// a refused Tversion must leave the connection as it was: a proper one is negotiated as usual afterwards
			x.Probe("tversion-after-refused-tversion")
			nm, ok = st.version(peer, 4096, ver, eff, sdotu)
		}
		if !ok {
			return
		}
		negotiated = nm
		if nm > 4096 {
			// large frames one byte per read cost a step per byte and add nothing here (C13 covers segmentation)
			sc.Srv.In.Seg, sc.Clnt.In.Seg = rt.SegRandom, rt.SegRandom
		}
		if c.cfg("badframe") != 0 {
			st.badFrame(sc, by, nm, &byReply)
			return
		}
		st.battery(peer, nm, 0)
		if c.cfg("reneg") != 0 {
			// fill the reply-buffer pool with buffers of the first negotiation
			var ms []*Msg
			for i := 0; i < int(c.cfg("prefill")); i++ {
				ms = append(ms, &Msg{Type: Tread, Tag: uint16(300 + i), Fid: 1, Offset: uint64(i), Count: uint32(min64(nm-24, 3000))})
			}
			ss := peer.Write(ms...)
			rt.YieldUntil(rt.SiteActor, func() bool { return allReplied(ss) || peer.EOF })
			// optionally leave requests outstanding (parked) across the second Tversion
			for i := 0; i < int(c.cfg("heldat")); i++ {
				peer.Write(&Msg{Type: Tread, Tag: uint16(400 + i), Fid: 1, Offset: 999, Count: uint32(min64(nm-24, 3000))}) // their replies would not fit the msize agreed next
			}
			if c.cfg("heldat") > 0 {
				rt.YieldUntil(rt.SiteActor, func() bool { return len(fs.HeldInvs()) >= int(c.cfg("heldat")) || peer.EOF })
				x.Probe("renegotiation-with-requests-outstanding")
			}
			ver2 := c12Versions[int(c.cfg("ver2"))%2]
			negotiated = -1
			if pl := c.cfg("pipelined"); pl != 0 && c.cfg("heldat") == 0 {
				// the second Tversion and the next request arrive in one transport read
				cm2 := c.cfg("cmsize2")
				tv := &Msg{Type: Tversion, Tag: NOTAG, Msize: uint32(cm2), Version: ver2}
				var next *Msg
				before := len(fs.Log)
				if pl == 1 {
					st.statLen[77] = int(cm2) * 3
					next = &Msg{Type: Tstat, Tag: 77, Fid: 1}
				} else {
					next = &Msg{Type: Twstat, Tag: 78, Fid: 1, Stat: Stat{Type: 0xFFFF, Dev: 0xFFFFFFFF, Mode: 0xFFFFFFFF, Atime: 0xFFFFFFFF, Mtime: 0xFFFFFFFF, Length: ^uint64(0),
						Name: string(make([]byte, int(cm2)+40))}}
					x.Fault("size-oversize")
				}
				x.Fault("coalesce")
				ss := peer.Write(tv, next)
				rt.YieldUntil(rt.SiteActor, func() bool { return allReplied(ss) || peer.EOF })
				x.Probe("request-pipelined-behind-tversion")
				if pl == 2 {
					if !peer.EOF {
						x.Violate("m4-not-dropped", "a %d-byte frame arriving right behind a Tversion that lowered msize to %d was not answered by dropping the connection", len(ss[1].Raw), cm2)
					}
					for _, in := range fs.Log[before:] {
						if in.Req != nil {
							x.Violate("m4-executed", "a request (%s) larger than the msize just negotiated was executed", in.Op)
						}
					}
					return
				}
				if peer.EOF {
					x.Violate("m0-stalled", "the connection was dropped after a second Tversion with a request pipelined behind it")
					return
				}
				st.battery(peer, negotiated, 10)
				return
			}
			nm2, ok := st.version(peer, c.cfg("cmsize2"), ver2, nm, sdotu)
			if !ok {
				return
			}
			negotiated = nm2
			x.Probe("reply-buffer-older-than-negotiation")
			st.battery(peer, nm2, 10)
			if c.cfg("heldat") == 0 && !peer.EOF && len(x.Res.Viol) == 0 {
				// a third Tversion asks for more again. Whether the server goes back up is its business; whatever
				// it announces is what it then honours, in both directions
				up := c.cfg("cmsize")
				if r := peer.Call(&Msg{Type: Tversion, Tag: NOTAG, Msize: uint32(up), Version: ver2}); r == nil || r.M == nil || r.M.Type != Rversion {
					x.Violate("m1-version", "a third Tversion (msize %d) was not answered with Rversion", up)
				} else if a := int64(r.M.Msize); a < 24 || a > up {
					x.Violate("m1-msize", "a third Tversion asking for msize %d was answered with msize %d", up, a)
				} else {
					negotiated = a
					x.Probe("renegotiation-upwards")
					st.battery(peer, a, 20)
				}
			}
		}
	})
	for {
		if !x.Run() {
			return
		}
		held := fs.HeldInvs()
		if len(held) == 0 || !done {
			if len(held) == 0 {
				break
			}
		}
		if len(held) == 0 {
			break
		}
		held[x.S.Choose(len(held))].Released = true
	}
	if !done {
		x.Violate("m0-stalled", "the negotiation session did not finish: a request got no reply (client blocked)")
	}
	if c.cfg("badframe") != 0 && negotiated > 0 {
		if !peer.EOF {
			x.Violate("m4-not-dropped", "a frame announcing an illegal size was not answered by dropping the connection")
		}
		if byReply == nil || byReply.M == nil || byReply.M.Type != Rversion {
			x.Violate("m4-bystander", "another connection is not served after the bad frame")
		}
	}
}

func min64(a, b int64) int64 {
	if a < b {
		return a
	}
	return b
}

// version performs a Tversion and checks the Rversion against min / both-asked.
func (st *c12Sys) version(peer *ClntPeer, cm int64, ver string, srvEff int64, sdotu bool) (int64, bool) {
	x := st.x
	r := peer.Call(&Msg{Type: Tversion, Tag: NOTAG, Msize: uint32(cm), Version: ver})
	if r == nil || r.M == nil {
		x.Violate("m1-version", "Tversion(msize=%d, %q) got no decodable reply", cm, ver)
		return 0, false
	}
	if uint32(cm) < 24 {
		if r.M.Type != Rerror {
			x.Violate("m1-version", "Tversion with msize %d (< IOHDRSZ) was answered with %s instead of an error", cm, r.M)
		}
		x.Probe("msize-too-small-refused")
		return 0, false
	}
	if r.M.Type != Rversion {
		x.Violate("m1-version", "Tversion(msize=%d, %q) answered with %s", cm, ver, r.M)
		return 0, false
	}
	want := int64(uint32(cm))
	if srvEff < want {
		want = srvEff
	}
	wantVer := "9P2000"
	if ver == "9P2000.u" && sdotu {
		wantVer = "9P2000.u"
	}
	if int64(r.M.Msize) != want {
		x.Violate("m1-msize", "Tversion(msize=%d) against server msize %d answered msize %d, want %d", cm, srvEff, r.M.Msize, want)
	}
	if r.M.Version != wantVer {
		x.Violate("m1-dialect", "Tversion(%q) against a server with dotu=%v answered %q, want %q", ver, sdotu, r.M.Version, wantVer)
	}
	return int64(r.M.Msize), true
}

// battery sends every reply kind with the script producing the largest things it can.
func (st *c12Sys) battery(peer *ClntPeer, nm int64, fidBase uint32) {
	x := st.x
	call := func(m *Msg) *Recvd {
		if int64(len(Encode(m, peer.Dotu))) > nm {
			return nil // the request itself would not fit
		}
		if peer.EOF {
			return nil
		}
		r := peer.Call(m)
		if r == nil {
			x.Violate("m0-stalled", "%s got no reply after negotiating msize %d", m, nm)
		}
		return r
	}
	root, f1 := fidBase, fidBase+1
	// a tiny request always fits: Tclunk of an unknown fid
	if r := call(&Msg{Type: Tclunk, Tag: 1, Fid: 424242}); r != nil && r.M != nil && (r.M.Type != Rerror || r.M.Ename != "unknown fid") {
		x.Violate("m3-error", "Tclunk of an unknown fid answered %s", r.M)
	}
	if r := call(&Msg{Type: Tattach, Tag: 2, Fid: root, Afid: NOFID, Uname: "u1", Nuname: 1}); r == nil || r.M == nil || r.M.Type != Rattach {
		return
	}
	if r := call(&Msg{Type: Twalk, Tag: 3, Fid: root, Newfid: f1, Wname: []string{"f"}}); r == nil || r.M == nil || r.M.Type != Rwalk {
		return
	}
	if r := call(&Msg{Type: Topen, Tag: 4, Fid: f1, Mode: 2}); r == nil || r.M == nil || r.M.Type != Ropen {
		return
	}
	// Rstat close to and beyond the limit
	base := 7 + 2 + 2 + 39 + 2 + 2 + 3 + 2 + 3 + 2 + 4 // header, nstat, size, fixed fields, name, "uid", "gid", "muid"
	if peer.Dotu {
		base += 2 + 12
	}
	tag := uint16(20)
	for _, frame := range []int64{0, nm - 1, nm, nm + 1, nm + 9, nm + 14, nm + 15, 2 * nm, nm + 4000} {
		l := int(frame) - base
		if l < 0 {
			l = 0
		}
		if l > 60000 {
			l = 60000
		}
		st.statLen[uint32(tag)] = l
		r := call(&Msg{Type: Tstat, Tag: tag, Fid: f1})
		if r != nil && r.M != nil {
			fits := int64(base+maxInt(l, 7)) <= nm
			if fits && r.M.Type != Rstat {
				x.Violate("m2-fitting-reply-refused", "an Rstat of %d bytes fits msize %d but the server answered %s", base+maxInt(l, 7), nm, r.M)
			}
			if !fits && r.M.Type == Rstat && int64(len(r.Raw)) != int64(base+maxInt(l, 7)) {
				x.Violate("m3-stat", "the Rstat the implementation gave takes %d bytes in the negotiated dialect, a frame of %d bytes was sent", base+maxInt(l, 7), len(r.Raw))
			}
			if r.M.Type == Rstat {
				x.Probe("rstat-sent")
				if len(r.M.Stat.Name) != maxInt(l, 7) {
					x.Violate("m3-stat", "Rstat name has %d bytes, the implementation gave %d", len(r.M.Stat.Name), maxInt(l, 7))
				}
			} else {
				x.Probe("reply-refused-for-size")
			}
		}
		tag++
	}
	// Rerror texts close to and beyond the limit (the script answers Twstat with an error)
	eb := int64(7 + 2)
	if peer.Dotu {
		eb += 4
	}
	for _, frame := range []int64{0, nm - 1, nm, nm + 1, 3 * nm} {
		l := frame - eb
		if l < 0 {
			l = 0
		}
		if l > 60000 {
			l = 60000
		}
		st.errLen[uint32(tag)] = int(l)
		r := call(&Msg{Type: Twstat, Tag: tag, Fid: f1, Stat: Stat{Type: 0xFFFF, Dev: 0xFFFFFFFF, Mode: 0xFFFFFFFF, Atime: 0xFFFFFFFF, Mtime: 0xFFFFFFFF, Length: ^uint64(0)}})
		if r != nil && r.M != nil {
			if r.M.Type != Rerror {
				x.Violate("m3-error", "a scripted error was answered with %s", r.M)
			} else if int64(len(r.M.Ename)) == maxI64(l, 21) {
				x.Probe("rerror-full-text-sent")
			} else {
				x.Probe("rerror-shortened-or-replaced")
			}
		}
		tag++
	}
	// reads with counts up to the limit
	for _, cnt := range []int64{0, 1, nm - 25, nm - 24} {
		if cnt < 0 || cnt > nm-24 {
			continue
		}
		if cnt > 20000 {
			cnt = 20000 - (nm - 24 - cnt) // keep huge negotiations affordable
		}
		r := call(&Msg{Type: Tread, Tag: tag, Fid: f1, Offset: uint64(cnt) + 5, Count: uint32(cnt)})
		if r != nil && r.M != nil {
			if r.M.Type != Rread {
				x.Violate("m2-read-refused", "Tread with count %d (msize %d) answered %s", cnt, nm, r.M)
			} else if int64(len(r.M.Data)) > cnt {
				x.Violate("m2-more-than-asked", "Tread asked for %d bytes and got %d", cnt, len(r.M.Data))
			}
		}
		tag++
	}
	// a 16-element walk: Rwalk is 217 bytes
	names := []string{"a", "b", "c", "d", "e", "f", "g", "h", "i", "j", "k", "l", "m", "n", "o", "p"}
	if r := call(&Msg{Type: Twalk, Tag: tag, Fid: root, Newfid: fidBase + 2, Wname: names}); r != nil && r.M != nil {
		if nm >= 217 && r.M.Type != Rwalk {
			x.Violate("m2-fitting-reply-refused", "an Rwalk of 217 bytes fits msize %d but the server answered %s", nm, r.M)
		}
	}
}

func maxInt(a, b int) int {
	if a > b {
		return a
	}
	return b
}

func maxI64(a, b int64) int64 {
	if a > b {
		return a
	}
	return b
}

// badFrame announces an illegal frame size and expects the connection to be dropped.
func (st *c12Sys) badFrame(sc, by *SConn, nm int64, byReply **Recvd) {
	x := st.x
	c := x.C
	peer := sc.Peer
	before := len(st.fs.Log)
	var sz uint32
	switch bs := c.cfg("badsize"); {
	case bs >= 0:
		sz = uint32(bs)
		x.Fault("size-undersize")
	case bs == -1:
		sz = uint32(nm) + 1
		x.Fault("size-oversize")
	case bs == -2:
		sz = 8*uint32(nm) + 1
		x.Fault("size-oversize")
	case bs == -3:
		sz = 0xFFFFFFFF
		x.Fault("size-oversize")
	default:
		sz = 0x80000000
		x.Fault("size-oversize")
	}
	typ := byte(c.cfg("badtype"))
	if typ == 0 {
		typ = Tclunk
	}
	b := []byte{byte(sz), byte(sz >> 8), byte(sz >> 16), byte(sz >> 24), typ, 9, 0}
	body := int(c.cfg("badbody"))
	nrecv := len(peer.Recv)
	if typ == Tversion && sz > 13 && sz < 70000 && body > 0 {
		// a complete, well-formed Tversion that is simply larger than the negotiated msize (its version string is long)
		b = Encode(&Msg{Type: Tversion, Tag: NOTAG, Msize: 8192, Version: "9P2000" + strings.Repeat("x", int(sz)-13-6)}, false)
		x.Probe("oversize-frame-is-a-complete-tversion")
	} else if body > 0 && sz > 7 {
		// part of the announced frame follows: it must not be buffered until complete, nor executed
		b = append(b, Encode(&Msg{Type: Tclunk, Tag: 9, Fid: 424242}, peer.Dotu)[7:]...)
		for len(b) < body+7 {
			b = append(b, 0x55)
		}
	}
	if cut := int(c.cfg("badcut")); cut > 0 && len(b) > cut && (sz < 7 || sz > uint32(nm)) {
		if sz < 7 && int(sz) > cut {
			cut = int(sz) // an undersize frame, complete as announced (a server may wait for the bytes it was promised)
		}
		b = b[:cut] // the size field is complete: that is all it takes to know
		x.Probe("bad-size-with-an-incomplete-header")
	}
	peer.WriteRaw(b)
	rt.YieldUntil(rt.SiteActor, func() bool { return peer.EOF })
	for _, in := range st.fs.Log[before:] {
		if in.Req != nil {
			x.Violate("m4-executed", "a request (%s) was executed from a frame announcing size %d with msize %d", in.Op, sz, nm)
		}
	}
	if len(peer.Recv) > nrecv && sz > uint32(nm) {
		x.Violate("m4-executed", "a frame of type %d announcing size %d with msize %d was answered (%v): it was executed, not dropped", typ, sz, nm, peer.Recv[len(peer.Recv)-1].M)
	}
	*byReply = by.Peer.Call(&Msg{Type: Tversion, Tag: NOTAG, Msize: 8192, Version: "9P2000"})
}

// c12Client: the library client's Connect against a scripted Rversion.
func c12Client(x *Ctx) {
	c := x.C
	cm := uint32(c.cfg("cmsize"))
	rm := uint32(c.cfg("rmsize"))
	cdotu := c.cfg("dotu") != 0
	ver := c12Versions[int(c.cfg("ver"))%len(c12Versions)]
	go9p.DefaultDebuglevel = 0
	go9p.DefaultLogger = nil
	cs, cc := rt.NewPipePair(0, "srv", "clnt")
	cc.In.Seg, cs.In.Seg = int(c.cfg("seg")), int(c.cfg("seg"))
	peer := NewSrvPeer(x, cs, rm, true)
	agreedDotu := ver == "9P2000.u" && cdotu
	agreedMsize := cm
	if rm < agreedMsize {
		agreedMsize = rm
	}
	var sawAttach *Msg
	peer.Handle = func(p *SrvPeer, r *PReq) {
		switch r.M.Type {
		case Tversion:
			if r.M.Msize != cm {
				x.Violate("n1-client-version", "Connect(msize=%d) sent Tversion msize %d", cm, r.M.Msize)
			}
			wantV := "9P2000"
			if cdotu {
				wantV = "9P2000.u"
			}
			if r.M.Version != wantV {
				x.Violate("n1-client-version", "Connect(dotu=%v) sent version %q", cdotu, r.M.Version)
			}
			p.Dotu = agreedDotu
			p.Send(r, Encode(&Msg{Type: Rversion, Tag: r.M.Tag, Msize: rm, Version: ver}, false))
		default:
			if r.M.Type == Tattach {
				sawAttach = r.M
			}
			if int64(len(r.Raw)) > int64(agreedMsize) {
				x.Violate("n2-client-oversize", "the client sent a %d-byte %s after agreeing on msize %d", len(r.Raw), TypeName(r.M.Type), agreedMsize)
			}
			p.SendLater(r, Encode(StdReply(r.M, rm, true), p.Dotu))
		}
	}
	peer.Start()
	finished := false
	rt.Go(rt.SiteSpawn, func() {
		rt.SetName("main")
		clnt, err := go9p.Connect(cc, cm, cdotu)
		if err != nil {
			x.Violate("n0-connect", "Connect failed against a well-formed Rversion(msize=%d, %q): %v", rm, ver, err)
			return
		}
		if clnt.Msize != agreedMsize {
			x.Violate("n1-client-msize", "client proposed %d, server answered %d: client uses msize %d, want %d", cm, rm, clnt.Msize, agreedMsize)
		}
		if clnt.Dotu != agreedDotu {
			x.Violate("n1-client-dialect", "client asked dotu=%v, server answered %q: client uses dotu=%v, want %v", cdotu, ver, clnt.Dotu, agreedDotu)
		}
		fid, err := clnt.Attach(nil, go9p.OsUsers.Uid2User(0), "")
		if err != nil {
			x.Violate("n0-connect", "Attach after Connect failed: %v", err)
			return
		}
		clnt.Root = fid
		nf := clnt.FidAlloc()
		if _, err := clnt.Walk(fid, nf, []string{"x"}); err == nil {
			if err := clnt.Open(nf, go9p.OREAD); err == nil {
				if nf.Iounit > agreedMsize-24 {
					x.Violate("n2-iounit", "after agreeing on msize %d an opened fid has iounit %d", agreedMsize, nf.Iounit)
				}
				if agreedMsize >= 64 {
					d, err := clnt.Read(nf, 0, agreedMsize)
					if err == nil && uint32(len(d)) > agreedMsize-24 {
						x.Violate("n2-iounit", "a read returned %d bytes with msize %d", len(d), agreedMsize)
					}
				}
			}
		}
		if agreedMsize >= 160 {
			if d, err := clnt.Stat(nf); err != nil || d.Name != statFor(nf.Fid).Name {
				x.Violate("n3-client-stat", "Stat after negotiating dotu=%v failed or returned a wrong name: %v", agreedDotu, err)
			}
		}
		finished = true
	})
	if !x.Run() {
		return
	}
	if !finished && len(x.Res.Viol) == 0 {
		x.Violate("n0-stalled", "the client session against the scripted server did not finish")
	}
	if sawAttach != nil && agreedDotu && sawAttach.Nuname == 0xFFFFFFFF {
		x.Probe("attach-without-nuname-in-dotu")
	}
	x.FaultN("seg-split", cc.In.Splits+cs.In.Splits)
	_ = fmt.Sprint
}
