package h

// C17 — mutations through Ufs equal the corresponding POSIX operations
// (DESIGN.md §4 C17). Twin-tree differential: every mutating request is
// applied through 9P to tree A and with the os package to twin tree B, and
// the trees are compared after every step.

import (
	"errors"
	"fmt"
	"os"
	"os/exec"
	"path/filepath"
	"sort"
	"strings"
	"syscall"
	"time"

	"github.com/rminnich/go9p/vsim/rt"
)

func init() { register(&Property{ID: "C17", Gen: c17Gen, Exec: c17Exec}) }

func c17Gen(seed uint64, run int, tier string) *Case {
	r := NewRand(seed)
	c := &Case{Cfg: map[string]int64{}}
	genCommon(r, c.Cfg)
	if c.Cfg["seg"] == rt.SegOne || c.Cfg["seg"] == rt.SegTiny {
		c.Cfg["seg"] = rt.SegRandom
	}
	c.Cfg["maxsteps"] = 3000000
	c.Cfg["msize"] = int64(r.Pick(4096, 8192, 65536))
	c.Cfg["dotu"] = int64(r.Pick(0, 1, 1))
	c.Cfg["entries"] = int64(r.Range(3, 25))
	c.Cfg["nops"] = int64(r.Range(8, 30))
	if tier == "thorough" {
		c.Cfg["nops"] = int64(r.Range(8, 80))
	}
	c.Stratum = fmt.Sprintf("dotu=%d", c.Cfg["dotu"])
	if run%4 == 0 && c.Cfg["msize"] == 4096 {
		c.Cfg["deep"] = 1 // the session ends with two failing requests on a path close to PATH_MAX
	}
	if run%4 == 2 {
		// long-lived fids: several requests in a row through the same fid
		c.Cfg["session"] = 1
		c.Stratum += " session"
		return c
	}
	if run%4 == 3 {
		// injected operating-system errors: the mutating request of a step may meet a failing os / syscall call
		c.Cfg["osrate"] = int64(r.Pick(60, 150, 400))
		c.Stratum += " os-error"
		if run%32 == 7 {
			// directed: the first step creates over an existing file with OTRUNC and the stat after the open fails
			c.Cfg["directed"] = 1
		}
	}
	return c
}

func errnoOf(err error) uint32 {
	var e syscall.Errno
	if errors.As(err, &e) {
		return uint32(e)
	}
	return 0
}

func omodeFlags(m uint8) int {
	f := os.O_RDONLY
	switch m & 3 {
	case 1:
		f = os.O_WRONLY
	case 2:
		f = os.O_RDWR
	}
	if m&16 != 0 {
		f |= os.O_TRUNC
	}
	return f
}

func listTree(root string) (dirs, files, all []string) {
	filepath.Walk(root, func(p string, fi os.FileInfo, err error) error {
		if err != nil {
			return nil
		}
		rel, _ := filepath.Rel(root, p)
		if rel == "." {
			rel = ""
		}
		if fi.IsDir() {
			dirs = append(dirs, rel)
		} else if fi.Mode().IsRegular() {
			files = append(files, rel)
		}
		if rel != "" {
			all = append(all, rel)
		}
		return nil
	})
	sort.Strings(dirs)
	sort.Strings(files)
	sort.Strings(all)
	return
}

func splitRel(rel string) []string {
	if rel == "" {
		return nil
	}
	return strings.Split(rel, "/")
}

// c17Setup starts Ufs on a generated tree A and builds the identical twin B.
func c17Setup(x *Ctx) (u *UfsSys, A, B string, r *Rand, ok bool) {
	c := x.C
	ms := uint32(c.cfg("msize"))
	u = NewUfsSys(x, ms, true, 2, 0)
	if u == nil {
		return nil, "", "", nil, false
	}
	A = u.Root
	B = filepath.Join(u.Base, "twin")
	os.MkdirAll(B, 0o755)
	r = NewRand(c.Seed ^ 0x1717)
	tree := genTree(r, int(c.cfg("entries")), 4, true)
	// short names only: renames build new names from old ones
	for i := range tree {
		if len(filepath.Base(tree[i].Rel)) > 60 {
			tree[i].Kind = 0
		}
	}
	var keep []tEntry
	for _, e := range tree {
		ok := e.Kind != 0
		for _, k := range tree {
			if k.Kind == 0 && (e.Rel == k.Rel || strings.HasPrefix(e.Rel, k.Rel+"/") || e.Target == k.Rel || strings.HasPrefix(e.Target, k.Rel+"/")) {
				ok = false
			}
		}
		if ok {
			keep = append(keep, e)
		}
	}
	if err := makeTree(A, keep); err != nil {
		x.Trouble("tree A: %v", err)
		u.Cleanup()
		return nil, "", "", nil, false
	}
	if err := makeTree(B, keep); err != nil {
		x.Trouble("tree B: %v", err)
		u.Cleanup()
		return nil, "", "", nil, false
	}
	return u, A, B, r, true
}

func c17Exec(x *Ctx) {
	c := x.C
	if c.cfg("session") != 0 {
		c17Session(x)
		return
	}
	ms := uint32(c.cfg("msize"))
	u, A, B, r, ok := c17Setup(x)
	if !ok {
		return
	}
	defer u.Cleanup()
	finished := false
	sc := u.Raw(int(c.cfg("seg")))
	p := sc.Peer
	rt.Go(rt.SiteSpawn, func() {
		rt.SetName("raw-client")
		if !rawAttach(p, ms, c.cfg("dotu") != 0, "") {
			x.Violate("t0-mount", "attach failed")
			return
		}
		dotu := p.Dotu
		tag := uint16(10)
		fidno := uint32(10)
		call := func(m *Msg) *Recvd {
			tag++
			m.Tag = tag
			rr := p.Call(m)
			if rr == nil || rr.M == nil {
				x.Violate("t0-stalled", "%s got no reply", m)
			}
			return rr
		}
		// writeReq sends a Twrite; half of the time the client does not wait and further requests follow it at once
		writeReq := func(f uint32, off uint64, data []byte) *Recvd {
			wm := &Msg{Type: Twrite, Fid: f, Offset: off, Count: uint32(len(data)), Data: data}
			if len(data) >= 2 && r.Pct(30) {
				// the same bytes as two Twrites on the fid, both in flight at once: each is a pwrite of its own
				k := 1 + r.Intn(len(data)-1)
				tag += 2
				s1 := p.Write(&Msg{Type: Twrite, Tag: tag - 1, Fid: f, Offset: off, Count: uint32(k), Data: data[:k]})[0]
				s2 := p.Write(&Msg{Type: Twrite, Tag: tag, Fid: f, Offset: off + uint64(k), Count: uint32(len(data) - k), Data: data[k:]})[0]
				rt.YieldUntil(rt.SiteActor, func() bool { return p.EOF || (s1.Reply != nil && s2.Reply != nil) })
				x.Probe("two-writes-in-flight-on-one-fid")
				for i, s := range []*Sent{s1, s2} {
					want := []int{k, len(data) - k}[i]
					if s.Reply == nil || s.Reply.M == nil {
						x.Violate("t0-stalled", "%s got no reply", s.M)
						return nil
					}
					if s.Reply.M.Type != Rwrite || int(s.Reply.M.Count) != want {
						return s.Reply
					}
				}
				return &Recvd{M: &Msg{Type: Rwrite, Count: uint32(len(data))}}
			}
			if !r.Pct(50) {
				return call(wm)
			}
			tag++
			wm.Tag = tag
			s1 := p.Write(wm)[0]
			var more []*Sent
			for n := r.Range(1, 3); n > 0; n-- {
				tag++
				more = append(more, p.Write(&Msg{Type: Tstat, Tag: tag, Fid: 0})[0])
			}
			rt.YieldUntil(rt.SiteActor, func() bool {
				if p.EOF {
					return true
				}
				for _, s := range more {
					if s.Reply == nil {
						return false
					}
				}
				return s1.Reply != nil
			})
			if s1.Reply == nil || s1.Reply.M == nil {
				x.Violate("t0-stalled", "%s got no reply", wm)
			}
			x.Probe("write-followed-by-pipelined-requests")
			return s1.Reply
		}
		osrate := int(c.cfg("osrate"))
		directedSkip := 0
		var lastFault *rt.OSFired
		// mut sends the mutating request of a step; only while it is executed may injected OS errors fire (at most one)
		mut := func(m *Msg) *Recvd {
			lastFault = nil
			if osrate == 0 {
				return call(m)
			}
			before := len(x.S.OSLog)
			x.S.OSRate, x.S.OSMax = osrate, before+1
			if directedSkip > 0 {
				x.S.OSRate, x.S.OSSkip = 1000, directedSkip
				directedSkip = 0
			}
			rr := call(m)
			x.S.OSSkip = 0
			x.S.OSRate = 0
			if len(x.S.OSLog) > before {
				f := x.S.OSLog[before]
				lastFault = &f
				x.Fault("os-error-" + f.Name)
			}
			return rr
		}
		// injected reports whether the step met an injected error; if so the reply must be that error (or the
		// call it hit was one whose failure the server may ignore) and the twin is left alone
		injected := func(m *Msg, what string, before map[string]string, strict bool) bool {
			if lastFault == nil {
				return false
			}
			if m.Type != Rerror {
				return false // the failing call was not essential to the request: judge the step as usual
			}
			if dotu && m.Errno != uint32(lastFault.Errno) {
				// the injected failure hit a call whose outcome the server may ignore (an existence probe, a close),
				// and the request then failed for a reason of its own: judge the step as usual
				return false
			}
			if strict {
				if d := diffSnap(before, snapshotTree(A, false)); d != "" {
					rule := "t2-error-changed-tree"
					x.Violate(rule, "%s was answered %s (an %s call failed) but changed the tree: %s", what, m, lastFault.Name, d)
				}
			}
			x.Probe("os-error-answered-with-rerror")
			return true
		}
		walkTo := func(rel string) (uint32, bool) {
			fidno++
			names := splitRel(rel)
			f := fidno + []uint32{0, 0x7FFFFF00, 0x80000000, 0xFFFF0000}[c.Seed%4] // a fid is any 32-bit number but NOFID
			// up to 16 names per Twalk
			src := uint32(0)
			for first := true; first || len(names) > 0; first = false {
				n := len(names)
				if n > 16 {
					n = 16
				}
				rr := call(&Msg{Type: Twalk, Fid: src, Newfid: f, Wname: names[:n]})
				if rr == nil || rr.M == nil || rr.M.Type != Rwalk || len(rr.M.Wqid) != n {
					return 0, false
				}
				names = names[n:]
				src = f
			}
			return f, true
		}
		clunk := func(f uint32) { call(&Msg{Type: Tclunk, Fid: f}) }
		// a Twstat may arrive on a fid that is open, in any mode: the outcome is that of the path operation all the same
		maybeOpen := func(f uint32, rel string) string {
			if !r.Pct(40) {
				return ""
			}
			fi, err := os.Stat(filepath.Join(B, rel))
			if err != nil {
				return ""
			}
			mode := uint8(r.Pick(0, 1, 2, 3))
			if fi.IsDir() {
				mode = 0
			}
			if rr := call(&Msg{Type: Topen, Fid: f, Mode: mode}); rr != nil && rr.M != nil && rr.M.Type == Ropen {
				x.Probe("wstat-on-open-fid")
				return fmt.Sprintf(" on a fid open with mode %d", mode)
			}
			return ""
		}
		compare := func(what string) bool {
			sa, sb := snapshotTree(A, false), snapshotTree(B, false)
			if d := diffSnap(sa, sb); d != "" {
				x.Violate("t1-tree-diff", "after %s the exported tree differs from the twin on which the corresponding POSIX operation was applied: %s", what, d)
				return false
			}
			return true
		}
		nops := int(c.cfg("nops"))
		for k := 0; k < nops; k++ {
			dirs, files, all := listTree(B)
			before := snapshotTree(A, false)
			pickDir := func() string { return dirs[r.Intn(len(dirs))] }
			newName := func() string {
				if r.Pct(25) && len(all) > 0 {
					return filepath.Base(all[r.Intn(len(all))]) // an occupied name (maybe in another directory)
				}
				return fmt.Sprintf("new-%d", k)
			}
			kind := r.Intn(13)
			if !dotu && (kind == 2 || kind == 3 || kind == 11) {
				kind = 0
			}
			directed := c.cfg("directed") != 0 && k == 0
			if directed {
				kind = 0
				if len(files) == 0 {
					os.WriteFile(filepath.Join(A, "occupied"), pattern(777, 1, 2, 3), 0o644)
					os.WriteFile(filepath.Join(B, "occupied"), pattern(777, 1, 2, 3), 0o644)
					files = []string{"occupied"}
					before = snapshotTree(A, false)
				}
			}
			switch kind {
			case 0, 1: // create a file, then write through the same fid
				d := pickDir()
				name := newName()
				omode := uint8(r.Pick(0, 1, 2, 1|16, 2|16))
				perm := uint32(r.Pick(0o644, 0o600, 0o755, 0o400))
				if directed {
					tf := files[r.Intn(len(files))]
					d, name, omode = filepath.Dir(tf), filepath.Base(tf), 1|16
					if d == "." {
						d = ""
					}
					directedSkip = 3 // fid.stat, the existence probe and the open succeed; the stat after the open fails
				}
				what := fmt.Sprintf("Tcreate(%q in %q, perm %o, mode %d)", name, d, perm, omode)
				f, ok := walkTo(d)
				if !ok {
					x.Violate("t0-walk", "walk to the existing directory %q failed", d)
					return
				}
				pb := filepath.Join(B, d, name)
				_, existed := os.Lstat(pb)
				rr := mut(&Msg{Type: Tcreate, Fid: f, Name: name, Perm: perm, Mode: omode})
				if rr == nil || rr.M == nil {
					return
				}
				if injected(rr.M, what, before, true) {
					clunk(f)
					syncTwin(A, B)
					continue
				}
				if rr.M.Type == Rerror {
					// must correspond to a failing POSIX operation, and leave the tree alone
					fb, eb := os.OpenFile(pb, omodeFlags(omode)|os.O_CREATE|os.O_EXCL, os.FileMode(perm))
					if eb == nil {
						fb.Close()
						os.Remove(pb)
						x.Violate("t3-spurious-error", "%s answered %s although the POSIX operation succeeds", what, rr.M)
					} else if existed != nil {
						// name was free: the non-exclusive open fails the same way?
						if dotu && rr.M.Errno != errnoOf(eb) {
							x.Violate("t4-errno", "%s failed with error number %d, the POSIX operation fails with %d (%v)", what, rr.M.Errno, errnoOf(eb), eb)
						}
					}
					if d := diffSnap(before, snapshotTree(A, false)); d != "" {
						x.Violate("t2-error-changed-tree", "%s was answered %s but changed the tree: %s", what, rr.M, d)
					}
					x.Probe("create-error")
				} else {
					fb, eb := os.OpenFile(pb, omodeFlags(omode)|os.O_CREATE, os.FileMode(perm))
					if eb != nil {
						x.Violate("t3-spurious-success", "%s succeeded although the POSIX operation fails: %v", what, eb)
					} else {
						if sr := call(&Msg{Type: Tstat, Fid: f}); sr != nil && sr.M != nil && (sr.M.Type != Rstat || sr.M.Stat.Name != name) {
							x.Violate("t5-fid-after-create", "after %s the fid does not designate the created file: Tstat answered %s", what, sr.M)
						}
						if omode&3 != 0 {
							data := pattern(r.Pick(0, 1, 100, 3000), uint64(k), 1, 1)
							off := uint64(r.Pick(0, 0, 10, 5000))
							wr := writeReq(f, off, data)
							if wr != nil && wr.M != nil && wr.M.Type == Rwrite {
								fb.WriteAt(data[:wr.M.Count], int64(off))
							} else if wr != nil && wr.M != nil {
								x.Violate("t3-spurious-error", "Twrite through the fid just created for writing answered %s", wr.M)
							}
						}
						fb.Close()
					}
					if existed == nil {
						x.Probe("create-over-existing-name-succeeded")
					}
				}
				clunk(f)
				compare(what)
			case 2: // symlink
				d := pickDir()
				name := newName()
				tgt := r.Pick(0, 1)
				target := "dangling/none"
				if tgt == 1 && len(files) > 0 {
					target = filepath.Base(files[r.Intn(len(files))])
				}
				what := fmt.Sprintf("Tcreate(symlink %q -> %q in %q)", name, target, d)
				f, ok := walkTo(d)
				if !ok {
					return
				}
				rr := mut(&Msg{Type: Tcreate, Fid: f, Name: name, Perm: 0x02000000 | 0o777, Mode: 0, Ext: target})
				if rr == nil || rr.M == nil {
					return
				}
				if injected(rr.M, what, before, true) {
					clunk(f)
					syncTwin(A, B)
					continue
				}
				eb := os.Symlink(target, filepath.Join(B, d, name))
				c17Outcome(x, rr.M, eb, what, before, A, B, filepath.Join(d, name), dotu)
				clunk(f)
				compare(what)
				x.Probe("symlink-create")
			case 3: // hard link
				if len(files) == 0 {
					continue
				}
				d := pickDir()
				name := newName()
				src := files[r.Intn(len(files))]
				what := fmt.Sprintf("Tcreate(hard link %q to %q in %q)", name, src, d)
				sf, ok := walkTo(src)
				if !ok {
					return
				}
				f, ok := walkTo(d)
				if !ok {
					return
				}
				rr := mut(&Msg{Type: Tcreate, Fid: f, Name: name, Perm: 0x01000000 | 0o644, Mode: 0, Ext: fmt.Sprint(sf)})
				if rr == nil || rr.M == nil {
					return
				}
				if injected(rr.M, what, before, true) {
					clunk(f)
					clunk(sf)
					syncTwin(A, B)
					continue
				}
				eb := os.Link(filepath.Join(B, src), filepath.Join(B, d, name))
				c17Outcome(x, rr.M, eb, what, before, A, B, filepath.Join(d, name), dotu)
				clunk(f)
				clunk(sf)
				compare(what)
				x.Probe("hardlink-create")
			case 4: // mkdir
				d := pickDir()
				name := newName()
				perm := uint32(r.Pick(0o755, 0o700, 0o711))
				what := fmt.Sprintf("Tcreate(directory %q in %q, perm %o)", name, d, perm)
				f, ok := walkTo(d)
				if !ok {
					return
				}
				// (perm bits without a POSIX counterpart -- temporary, exclusive-use, append-only -- may ride along: it is a mkdir all the same)
				rr := mut(&Msg{Type: Tcreate, Fid: f, Name: name, Perm: 0x80000000 | uint32(r.Pick(0, 0, 0, 0x04000000, 0x20000000, 0x40000000)) | perm, Mode: 0})
				if rr == nil || rr.M == nil {
					return
				}
				if injected(rr.M, what, before, true) {
					clunk(f)
					syncTwin(A, B)
					continue
				}
				eb := os.Mkdir(filepath.Join(B, d, name), os.FileMode(perm))
				c17Outcome(x, rr.M, eb, what, before, A, B, filepath.Join(d, name), dotu)
				if rr.M.Type == Rcreate {
					if sr := call(&Msg{Type: Tstat, Fid: f}); sr != nil && sr.M != nil && (sr.M.Type != Rstat || sr.M.Stat.Name != name) {
						x.Violate("t5-fid-after-create", "after %s the fid does not designate the new directory: %s", what, sr.M)
					}
				}
				clunk(f)
				compare(what)
			case 5: // write to an existing file
				if len(files) == 0 {
					continue
				}
				tgt := files[r.Intn(len(files))]
				omode := uint8(r.Pick(1, 2, 1|16, 2|16))
				data := pattern(r.Pick(1, 10, 500, 4000), uint64(k), 2, 2)
				off := uint64(r.Pick(0, 1, 100, 6000))
				what := fmt.Sprintf("open(%q, mode %d) + Twrite(off %d, %d bytes)", tgt, omode, off, len(data))
				f, ok := walkTo(tgt)
				if !ok {
					return
				}
				fb, eb := os.OpenFile(filepath.Join(B, tgt), omodeFlags(omode), 0)
				or := call(&Msg{Type: Topen, Fid: f, Mode: omode})
				if or == nil || or.M == nil {
					return
				}
				if (or.M.Type == Ropen) != (eb == nil) {
					x.Violate("t3-open", "%s: open answered %s, the POSIX open gives %v", what, or.M, eb)
				}
				if or.M.Type == Ropen && eb == nil {
					wr := writeReq(f, off, data)
					if wr != nil && wr.M != nil && wr.M.Type == Rwrite {
						if int(wr.M.Count) != len(data) {
							x.Violate("t3-write", "%s wrote %d bytes", what, wr.M.Count)
						}
						fb.WriteAt(data[:wr.M.Count], int64(off))
					} else if wr != nil && wr.M != nil {
						x.Violate("t3-spurious-error", "%s: Twrite answered %s", what, wr.M)
					}
				}
				if fb != nil {
					fb.Close()
				}
				clunk(f)
				compare(what)
			case 6, 7: // remove
				if len(all) == 0 {
					continue
				}
				tgt := all[r.Intn(len(all))]
				what := fmt.Sprintf("Tremove(%q)", tgt)
				f, ok := walkTo(tgt)
				if !ok {
					continue // dangling intermediate symlink etc.
				}
				rr := mut(&Msg{Type: Tremove, Fid: f})
				if rr == nil || rr.M == nil {
					return
				}
				if injected(rr.M, what, before, true) {
					syncTwin(A, B)
					continue
				}
				eb := os.Remove(filepath.Join(B, tgt))
				c17Outcome(x, rr.M, eb, what, before, A, B, tgt, dotu)
				if eb != nil {
					x.Probe("remove-error")
				}
				compare(what)
			case 8: // rename
				if len(all) == 0 {
					continue
				}
				tgt := all[r.Intn(len(all))]
				nn := newName()
				if r.Pct(30) {
					// an occupied name in the same directory
					sib, _ := os.ReadDir(filepath.Join(B, filepath.Dir(tgt)))
					if len(sib) > 0 {
						nn = sib[r.Intn(len(sib))].Name()
					}
				}
				what := fmt.Sprintf("Twstat(%q, name=%q)", tgt, nn)
				f, ok := walkTo(tgt)
				if !ok {
					continue
				}
				what += maybeOpen(f, tgt)
				rr := mut(&Msg{Type: Twstat, Fid: f, Stat: nullStat(func(s *Stat) { s.Name = nn })})
				if rr == nil || rr.M == nil {
					return
				}
				if injected(rr.M, what, before, false) {
					clunk(f)
					syncTwin(A, B)
					continue
				}
				// rename(2) is the reference (os.Rename adds a check of its own for directories)
				eb := syscall.Rename(filepath.Join(B, tgt), filepath.Join(B, filepath.Dir(tgt), nn))
				c17Outcome(x, rr.M, eb, what, before, A, B, "", dotu)
				if rr.M.Type == Rwstat && eb == nil {
					if sr := call(&Msg{Type: Tstat, Fid: f}); sr != nil && sr.M != nil && (sr.M.Type != Rstat || sr.M.Stat.Name != nn) {
						x.Violate("t5-fid-after-rename", "after %s the fid does not designate the renamed object: Tstat answered %s", what, sr.M)
					}
					x.Probe("rename")
				}
				clunk(f)
				compare(what)
			case 9: // truncate / chmod
				if len(all) == 0 {
					continue
				}
				tgt := all[r.Intn(len(all))]
				f, ok := walkTo(tgt)
				if !ok {
					continue
				}
				fi, err := os.Stat(filepath.Join(B, tgt))
				if err != nil {
					clunk(f)
					continue // dangling symlink: chmod/truncate follow it on both sides, nothing to learn
				}
				opened := maybeOpen(f, tgt)
				if r.Bool() {
					l := uint64(r.Pick(0, 1, int(fi.Size()), int(fi.Size())+1000, 7))
					what := fmt.Sprintf("Twstat(%q, length=%d)", tgt, l) + opened
					rr := call(&Msg{Type: Twstat, Fid: f, Stat: nullStat(func(s *Stat) { s.Length = l })})
					if rr == nil || rr.M == nil {
						return
					}
					eb := os.Truncate(filepath.Join(B, tgt), int64(l))
					c17Outcome(x, rr.M, eb, what, before, A, B, "", dotu)
					clunk(f)
					compare(what)
					x.Probe("truncate")
				} else {
					m := uint32(r.Pick(0o600, 0o644, 0o755, 0o700, 0o444, 0o777, 0o777, int(fi.Mode().Perm()), int(fi.Mode().Perm())))
					if fi.Mode().IsRegular() && r.Pct(30) {
						// the file has a set-id or sticky bit: chmod(2) with plain permission bits clears it
						sp := []os.FileMode{os.ModeSetuid, os.ModeSetgid, os.ModeSticky}[r.Intn(3)]
						os.Chmod(filepath.Join(A, tgt), fi.Mode().Perm()|sp)
						os.Chmod(filepath.Join(B, tgt), fi.Mode().Perm()|sp)
						before = snapshotTree(A, false)
						x.Probe("chmod-of-a-file-with-special-bits")
					}
					keepDir := uint32(0)
					if fi.IsDir() {
						keepDir = 0x80000000
					}
					what := fmt.Sprintf("Twstat(%q, mode=%o)", tgt, m) + opened
					rr := call(&Msg{Type: Twstat, Fid: f, Stat: nullStat(func(s *Stat) { s.Mode = keepDir | m })})
					if rr == nil || rr.M == nil {
						return
					}
					eb := os.Chmod(filepath.Join(B, tgt), os.FileMode(m))
					c17Outcome(x, rr.M, eb, what, before, A, B, "", dotu)
					clunk(f)
					compare(what)
					x.Probe("chmod")
				}
			case 11: // chown (9P2000.u carries numeric ids)
				if len(files) == 0 {
					continue
				}
				tgt := files[r.Intn(len(files))]
				f, ok := walkTo(tgt)
				if !ok {
					continue
				}
				uid, gid := uint32(r.Pick(0, 1, 1000, 0xFFFFFFFF)), uint32(r.Pick(0, 2, 1000, 0xFFFFFFFF))
				what := fmt.Sprintf("Twstat(%q, n_uid=%d, n_gid=%d)", tgt, uid, gid) + maybeOpen(f, tgt)
				rr := mut(&Msg{Type: Twstat, Fid: f, Stat: nullStat(func(s *Stat) { s.Nuid, s.Ngid = uid, gid })})
				if rr == nil || rr.M == nil {
					return
				}
				if injected(rr.M, what, before, false) {
					clunk(f)
					syncTwin(A, B)
					continue
				}
				var eb error
				if uid != 0xFFFFFFFF || gid != 0xFFFFFFFF {
					eb = os.Chown(filepath.Join(B, tgt), int(int32(uid)), int(int32(gid)))
				}
				c17Outcome(x, rr.M, eb, what, before, A, B, "", dotu)
				clunk(f)
				compare(what)
				x.Probe("chown")
			case 12: // several fields in one Twstat: permission bits, name, length, mtime (applied in that order)
				if len(files) == 0 {
					continue
				}
				tgt := files[r.Intn(len(files))]
				if fi, err := os.Lstat(filepath.Join(B, tgt)); err != nil || !fi.Mode().IsRegular() {
					continue
				}
				f, ok := walkTo(tgt)
				if !ok {
					continue
				}
				opened := maybeOpen(f, tgt)
				var parts []string
				st := nullStat(func(*Stat) {})
				var twin []func() error
				cur := filepath.Join(B, tgt)
				newRel := tgt
				if r.Bool() {
					m := uint32(r.Pick(0o600, 0o644, 0o755))
					st.Mode = m
					parts = append(parts, fmt.Sprintf("mode=%o", m))
					twin = append(twin, func() error { return os.Chmod(cur, os.FileMode(m)) })
				}
				if r.Pct(70) {
					nn := newName()
					st.Name = nn
					newRel = filepath.Join(filepath.Dir(tgt), nn)
					parts = append(parts, fmt.Sprintf("name=%q", nn))
					twin = append(twin, func() error {
						err := syscall.Rename(cur, filepath.Join(B, newRel))
						if err == nil {
							cur = filepath.Join(B, newRel)
						}
						return err
					})
				}
				if r.Pct(60) {
					l := uint64(r.Pick(0, 3, 5000))
					st.Length = l
					parts = append(parts, fmt.Sprintf("length=%d", l))
					twin = append(twin, func() error { return os.Truncate(cur, int64(l)) })
				}
				mt := uint32(0)
				if r.Pct(60) {
					mt = uint32(1_300_000_000 + r.Intn(100000000))
					st.Mtime = mt
					parts = append(parts, fmt.Sprintf("mtime=%d", mt))
				}
				if len(parts) < 2 {
					clunk(f)
					continue
				}
				what := fmt.Sprintf("Twstat(%q, %s)", tgt, strings.Join(parts, ", ")) + opened
				rr := call(&Msg{Type: Twstat, Fid: f, Stat: st})
				if rr == nil || rr.M == nil {
					return
				}
				var eb error
				for _, step := range twin {
					if eb = step(); eb != nil {
						break
					}
				}
				c17Outcome(x, rr.M, eb, what, before, A, B, "", dotu)
				if rr.M.Type == Rwstat && eb == nil && mt != 0 {
					if fi, err := os.Lstat(filepath.Join(A, newRel)); err == nil && fi.ModTime().Unix() != int64(mt) {
						x.Violate("t1-tree-diff", "after %s the file's mtime is %d", what, fi.ModTime().Unix())
					}
				}
				clunk(f)
				compare(what)
				x.Probe("wstat-several-fields")
			case 10: // mtime
				if len(files) == 0 {
					continue
				}
				tgt := files[r.Intn(len(files))]
				f, ok := walkTo(tgt)
				if !ok {
					continue
				}
				mt := uint32(1_400_000_000 + r.Intn(100000000))
				what := fmt.Sprintf("Twstat(%q, mtime=%d)", tgt, mt) + maybeOpen(f, tgt)
				rr := call(&Msg{Type: Twstat, Fid: f, Stat: nullStat(func(s *Stat) { s.Mtime = mt })})
				if rr == nil || rr.M == nil {
					return
				}
				if rr.M.Type != Rwstat {
					x.Violate("t3-spurious-error", "%s answered %s", what, rr.M)
				} else if fi, err := os.Lstat(filepath.Join(A, tgt)); err == nil && fi.ModTime().Unix() != int64(mt) {
					x.Violate("t6-mtime", "%s: the file's mtime is %d afterwards", what, fi.ModTime().Unix())
				}
				os.Chtimes(filepath.Join(B, tgt), time.Unix(int64(mt), 0), time.Unix(int64(mt), 0))
				clunk(f)
				compare(what)
				x.Probe("set-mtime")
			}
			if len(x.Res.Viol) > 0 {
				break // the trees have diverged: later steps would only repeat it
			}
		}
		if c.cfg("deep") != 0 && len(x.Res.Viol) == 0 && x.S.OSRate == 0 {
			// a path close to PATH_MAX: the text of an error that names it does not fit into msize 4096, whatever the
			// server does about the text, the error number is the one of the POSIX operation that failed
			total := 4078
			var comps []string
			for left := total - len(A) - len("/full"); left > 2; {
				n := 250
				if left-1 < n {
					n = left - 1
				}
				comps = append(comps, strings.Repeat(string(rune('a'+len(comps)%26)), n))
				left -= n + 1
			}
			rel := filepath.Join(comps...)
			ok := true
			for _, root := range []string{A, B} {
				if os.MkdirAll(filepath.Join(root, rel, "full"), 0o755) != nil || os.WriteFile(filepath.Join(root, rel, "full", "x"), []byte("x"), 0o644) != nil {
					ok = false
				}
			}
			if f, wok := walkTo(rel); ok && wok {
				before := snapshotTree(A, false)
				what := fmt.Sprintf("Tcreate(directory \"full\" over an existing one, %d bytes of path)", len(filepath.Join(A, rel, "full")))
				if rr := mut(&Msg{Type: Tcreate, Fid: f, Name: "full", Perm: 0x80000000 | 0o755, Mode: 0}); rr != nil && rr.M != nil {
					c17Outcome(x, rr.M, os.Mkdir(filepath.Join(B, rel, "full"), 0o755), what, before, A, B, "", dotu)
				}
				clunk(f)
				if f2, wok := walkTo(filepath.Join(rel, "full")); wok {
					what := "Tremove(a directory that is not empty, at the end of a path close to PATH_MAX)"
					if rr := mut(&Msg{Type: Tremove, Fid: f2}); rr != nil && rr.M != nil {
						c17Outcome(x, rr.M, os.Remove(filepath.Join(B, rel, "full")), what, before, A, B, "", dotu)
					}
				}
				x.Probe("errors-naming-a-path-close-to-PATH_MAX")
			}
		}
		finished = true
	})
	if !x.Run() {
		return
	}
	u.CountFaults()
	if !finished && len(x.Res.Viol) == 0 {
		x.Violate("t0-stalled", "the session did not finish")
	}
}

// syncTwin makes the twin equal to the exported tree again after a step that met an injected error
// (a multi-call request may have been applied partly; what it must not do is judged at that step).
func syncTwin(A, B string) {
	os.RemoveAll(B)
	exec.Command("cp", "-a", A, B).Run()
}

// nullStat returns a Twstat record that touches nothing, modified by f.
func nullStat(f func(*Stat)) Stat {
	s := Stat{Type: 0xFFFF, Dev: 0xFFFFFFFF, Qid: Qid{0xFF, 0xFFFFFFFF, ^uint64(0)}, Mode: 0xFFFFFFFF, Atime: 0xFFFFFFFF, Mtime: 0xFFFFFFFF,
		Length: ^uint64(0), Nuid: 0xFFFFFFFF, Ngid: 0xFFFFFFFF, Nmuid: 0xFFFFFFFF}
	f(&s)
	return s
}

// c17Outcome compares a reply with the outcome of the POSIX operation on the twin.
func c17Outcome(x *Ctx, m *Msg, posixErr error, what string, before map[string]string, A, B, created string, dotu bool) {
	if m.Type == Rerror {
		if posixErr == nil {
			x.Violate("t3-spurious-error", "%s answered %s although the corresponding POSIX operation succeeds", what, m)
			// bring the twin back so that the tree comparison shows what the failed request left behind
			if created != "" {
				os.Remove(filepath.Join(B, created))
			}
		} else if dotu && m.Errno != errnoOf(posixErr) {
			x.Violate("t4-errno", "%s failed with error number %d (%q), the POSIX operation fails with %d (%v)", what, m.Errno, m.Ename, errnoOf(posixErr), posixErr)
		}
		if d := diffSnap(before, snapshotTree(A, false)); d != "" && (strings.HasPrefix(what, "Tcreate") || strings.HasPrefix(what, "Tremove")) {
			x.Violate("t2-error-changed-tree", "%s was answered %s but changed the tree: %s", what, m, d)
		}
		return
	}
	if posixErr != nil {
		x.Violate("t3-spurious-success", "%s succeeded although the corresponding POSIX operation fails: %v", what, posixErr)
	}
}
