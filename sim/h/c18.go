package h

// C18 — Ufs confines clients to the exported root (DESIGN.md §4 C18).

import (
	"bytes"
	"fmt"
	"github.com/rminnich/go9p"
	"os"
	"path/filepath"
	"strings"
	"syscall"

	"github.com/rminnich/go9p/vsim/rt"
)

func init() { register(&Property{ID: "C18", Gen: c18Gen, Exec: c18Exec}) }

func c18Gen(seed uint64, run int, tier string) *Case {
	r := NewRand(seed)
	c := &Case{Cfg: map[string]int64{}}
	genCommon(r, c.Cfg)
	if c.Cfg["seg"] == rt.SegOne || c.Cfg["seg"] == rt.SegTiny {
		c.Cfg["seg"] = rt.SegRandom
	}
	c.Cfg["msize"] = int64(r.Pick(4096, 8192))
	c.Cfg["dotu"] = int64(r.Intn(2))
	c.Cfg["entries"] = int64(r.Range(3, 15))
	c.Cfg["nattacks"] = int64(r.Range(6, 20))
	return c
}

const canaryText = "CANARY-OUTSIDE-THE-EXPORTED-TREE-7f3a9"

// evilName draws a name from the grammar of '..', '.', ”, '/', absolute paths, chains and mixtures.
func evilName(r *Rand, real []string, outer string) string {
	pick := func() string {
		if len(real) > 0 {
			return real[r.Intn(len(real))]
		}
		return "x"
	}
	switch r.Intn(22) {
	case 19:
		// elements with a trailing or embedded '/'
		return []string{"../", "./", "sub/", "../.", "..//", "/..", "sub/../..", ".././"}[r.Intn(8)]
	case 20:
		return pick() + "/"
	case 21:
		return strings.Repeat("../", r.Range(1, 3))
	case 16:
		// a sibling of the root whose name begins with the root's name
		return strings.Repeat("../", r.Range(1, 4)) + "root.bak/canary.txt"
	case 17:
		return outer + "/root.bak/planted"
	case 18:
		return "../rootx"
	case 0:
		return ".."
	case 1:
		return "."
	case 2:
		return ""
	case 3:
		return "/"
	case 4:
		return "../canary.txt"
	case 5:
		return "../canarydir"
	case 6:
		return strings.Repeat("../", r.Range(2, 12)) + "etc/passwd"
	case 7:
		// absolute spellings, also ones that begin with the server's own path of the exported root and leave it again
		return outer + []string{"/canary.txt", "/root/../canary.txt", "/root/../canarydir", "/root/sub/../../canary.txt", "/root/..", "/root/../root.bak/canary.txt", "/root/./../canarydir/inside.txt"}[r.Intn(7)]
	case 8:
		return "/etc/passwd"
	case 9:
		return pick() + "/../../canary.txt"
	case 10:
		return pick() + "/.."
	case 11:
		return "../" + filepath.Base(outer) + "/canarydir/inside.txt"
	case 12:
		return "./../canary.txt"
	case 13:
		return "//../canarydir"
	case 14:
		return "..//canary.txt"
	case 15:
		// through a symbolic link that stays inside the tree but points towards the root, then up: the spelling
		// looks like a place inside the tree, the file system resolves it to one above the root
		return []string{"up", "back", "top", "sub/back", "sub/deep/top", "up/up", "up/sub/back"}[r.Intn(7)] + strings.Repeat("/..", r.Pick(1, 1, 2)) + "/" + []string{"canary.txt", "canarydir", "planted", "canarydir/planted", "canarydir/inside.txt"}[r.Intn(5)]
	default:
		return pick()
	}
}

func c18Exec(x *Ctx) {
	c := x.C
	ms := uint32(c.cfg("msize"))
	u := NewUfsSys(x, ms, true, 2, 0)
	if u == nil {
		return
	}
	defer u.Cleanup()
	r := NewRand(c.Seed ^ 0x1818)
	tree := genTree(r, int(c.cfg("entries")), 3, false)
	for i := range tree {
		if len(filepath.Base(tree[i].Rel)) > 40 {
			tree[i].Rel = "" // keep names short: they are combined into attack paths
			tree[i].Kind = 'd'
		}
	}
	if err := makeTree(u.Root, tree); err != nil {
		// a dropped directory may orphan children: fall back to a small fixed tree
		os.RemoveAll(u.Root)
		os.MkdirAll(filepath.Join(u.Root, "sub", "deep"), 0o755)
		os.WriteFile(filepath.Join(u.Root, "sub", "file"), []byte("inside"), 0o644)
	}
	os.MkdirAll(filepath.Join(u.Root, "sub", "deep"), 0o755)
	os.WriteFile(filepath.Join(u.Root, "sub", "file"), []byte("inside"), 0o644)
	// symbolic links that stay inside the tree but point towards the root: '..' after them is still inside
	os.Symlink(".", filepath.Join(u.Root, "up"))
	os.Symlink("..", filepath.Join(u.Root, "sub", "back"))
	os.Symlink("../..", filepath.Join(u.Root, "sub", "deep", "top"))
	// canaries next to and above the root
	canary := filepath.Join(u.Outer, "canary.txt")
	os.WriteFile(canary, []byte(canaryText), 0o644)
	os.MkdirAll(filepath.Join(u.Outer, "canarydir"), 0o755)
	os.WriteFile(filepath.Join(u.Outer, "canarydir", "inside.txt"), []byte(canaryText+"-2"), 0o644)
	os.WriteFile(filepath.Join(u.Base, "above.txt"), []byte(canaryText+"-3"), 0o644)
	os.MkdirAll(filepath.Join(u.Outer, "root.bak"), 0o755) // siblings whose names begin with the root's
	os.WriteFile(filepath.Join(u.Outer, "root.bak", "canary.txt"), []byte(canaryText+"-4"), 0o644)
	os.WriteFile(filepath.Join(u.Outer, "rootx"), []byte(canaryText+"-5"), 0o644)
	outside := map[uint64]string{}
	for _, p := range []string{u.Outer, canary, filepath.Join(u.Outer, "canarydir"), filepath.Join(u.Outer, "canarydir", "inside.txt"), u.Base, filepath.Join(u.Base, "above.txt"), "/", "/etc", "/etc/passwd", filepath.Dir(u.Base),
		filepath.Join(u.Outer, "root.bak"), filepath.Join(u.Outer, "root.bak", "canary.txt"), filepath.Join(u.Outer, "rootx")} {
		if fi, err := os.Lstat(p); err == nil {
			outside[fi.Sys().(*syscall.Stat_t).Ino] = p
		}
	}
	inside := map[uint64]bool{}
	filepath.Walk(u.Root, func(p string, fi os.FileInfo, err error) error {
		if err == nil {
			inside[fi.Sys().(*syscall.Stat_t).Ino] = true
		}
		return nil
	})
	if c.Seed%5 == 1 {
		// the server is told the root by a path that leads through a symbolic link
		if os.Symlink("outer", filepath.Join(u.Base, "lnk")) == nil {
			u.Ufs.Root = filepath.Join(u.Base, "lnk", "root")
			x.Probe("export-root-spelled-through-a-symlink")
		}
	}
	if c.Seed%5 == 0 {
		// the server is told to export "." (its working directory is the tree)
		if wd, err := os.Getwd(); err == nil && os.Chdir(u.Root) == nil {
			u.Ufs.Root = "."
			defer os.Chdir(wd)
			x.Probe("relative-export-root")
		}
	}
	if c.Seed%4 == 2 {
		os.MkdirAll(filepath.Join(u.Base, "decoy", "export", "d"), 0o755) // the tree of a second server (below)
	}
	outsideBefore := c18Outside(u)
	var dirs, real []string
	for _, e := range tree {
		if e.Kind == 'd' {
			dirs = append(dirs, e.Rel)
		}
		if e.Rel != "" {
			real = append(real, filepath.Base(e.Rel))
		}
	}
	dirs = append(dirs, "sub", "sub/deep")
	real = append(real, "sub", "file", "deep")
	finished := false
	dotu := c.cfg("dotu") != 0
	checkQid := func(q Qid, what string) {
		if p, ok := outside[q.Path]; ok && !inside[q.Path] {
			x.Violate("x2-outside-object", "%s returned the qid of %s, which lies outside the exported tree", what, p)
		}
	}
	rt.Go(rt.SiteSpawn, func() {
		rt.SetName("attacker")
		if c.Seed%4 == 2 {
			// the process serves a second tree as well (another Ufs with its own root), and somebody has walked
			// '..' there before: what one server learns about its root is nothing to the other
			decoy := new(go9p.Ufs)
			decoy.Dotu, decoy.Msize, decoy.Id = true, 8192, "decoy"
			decoy.Root = filepath.Join(u.Base, "decoy", "export")
			os.MkdirAll(filepath.Join(decoy.Root, "d"), 0o755)
			if decoy.Start(decoy) {
				cs, cc := rt.NewPipePair(0, "srv90", "clnt90")
				rt.Go(rt.SiteSpawn, func() { rt.SetName("decoy-connhost"); decoy.NewConn(cs) })
				dp := NewClntPeer(x, cc)
				dp.StartReader()
				if rawAttach(dp, 8192, true, "") {
					dp.Call(&Msg{Type: Twalk, Tag: 5, Fid: 0, Newfid: 1, Wname: []string{"..", "d", ".."}})
					dp.Call(&Msg{Type: Twalk, Tag: 6, Fid: 0, Newfid: 2, Wname: []string{"d", "..", ".."}})
				}
				cc.Close()
				x.Probe("second-ufs-server-in-the-process")
			}
		}
		nat := int(c.cfg("nattacks"))
		for k := 0; k < nat; k++ {
			sc := u.Raw(int(c.cfg("seg")))
			p := sc.Peer
			tag := uint16(10)
			call := func(m *Msg) *Recvd {
				tag++
				m.Tag = tag
				rr := p.Call(m)
				if rr == nil || rr.M == nil {
					x.Violate("x0-stalled", "%s got no reply (connection dropped: %v)", m, p.EOF)
				}
				return rr
			}
			ver := "9P2000"
			if dotu {
				ver = "9P2000.u"
			}
			if rr := p.Call(&Msg{Type: Tversion, Tag: NOTAG, Msize: ms, Version: ver}); rr == nil || rr.M == nil || rr.M.Type != Rversion {
				x.Violate("x0-stalled", "Tversion failed")
				return
			}
			// attach: plain, or with an evil attach name
			aname := ""
			if r.Pct(35) {
				aname = evilName(r, real, u.Outer)
			}
			ar := call(&Msg{Type: Tattach, Fid: 0, Afid: NOFID, Uname: "root", Aname: aname, Nuname: 0})
			if ar == nil || ar.M == nil {
				return
			}
			if ar.M.Type != Rattach {
				x.Probe("attach-refused")
				continue
			}
			checkQid(ar.M.Qid, fmt.Sprintf("Tattach(aname=%q)", aname))
			if aname == "" && r.Pct(25) {
				// a second attach on the same connection, to a subtree; then '..' from the root fid of the first
				sub := []string{"sub", "sub/deep", "/sub"}[r.Intn(3)]
				if a2 := call(&Msg{Type: Tattach, Fid: 20, Afid: NOFID, Uname: "root", Aname: sub, Nuname: 0}); a2 != nil && a2.M != nil && a2.M.Type == Rattach {
					checkQid(a2.M.Qid, fmt.Sprintf("second Tattach(aname=%q)", sub))
					if wr := call(&Msg{Type: Twalk, Fid: 0, Newfid: 21, Wname: []string{"..", "canary.txt"}}); wr != nil && wr.M != nil && wr.M.Type == Rwalk {
						for _, q := range wr.M.Wqid {
							checkQid(q, fmt.Sprintf("attach \"\", attach %q, then walk '..', 'canary.txt' from the first root", sub))
						}
						if len(wr.M.Wqid) > 0 && wr.M.Wqid[0].Path != ar.M.Qid.Path {
							x.Violate("x3-dotdot-at-root", "after a second attach (to %q) on the connection, '..' at the root of the first yields qid path %d, the root's is %d", sub, wr.M.Wqid[0].Path, ar.M.Qid.Path)
						}
						if len(wr.M.Wqid) == 2 {
							call(&Msg{Type: Tclunk, Fid: 21})
						}
					}
					call(&Msg{Type: Tclunk, Fid: 20})
					x.Probe("second-attach-on-the-connection")
				}
			}
			// go somewhere in the tree, then walk evil elements
			cur := uint32(0)
			if aname == "" && r.Pct(60) {
				d := dirs[r.Intn(len(dirs))]
				if wr := call(&Msg{Type: Twalk, Fid: 0, Newfid: 1, Wname: splitRel(d)}); wr != nil && wr.M != nil && wr.M.Type == Rwalk && len(wr.M.Wqid) == len(splitRel(d)) {
					cur = 1
				}
			}
			var names []string
			for n := r.Range(0, 4); n > 0; n-- {
				names = append(names, evilName(r, real, u.Outer))
			}
			if cur == 0 && r.Pct(20) {
				// through a link that points towards the root, then up, then at a canary
				names = [][]string{{"up", "..", "canary.txt"}, {"sub", "back", "..", "canary.txt"}, {"sub", "deep", "top", "..", "canarydir", "inside.txt"},
					{"up", "up", "..", "..", "canary.txt"}, {"sub", "back", "up", "..", ".."}}[r.Intn(5)]
				x.Probe("dotdot-after-a-link-towards-the-root")
			}
			what := fmt.Sprintf("attach %q then walk %q", aname, names)
			wr := call(&Msg{Type: Twalk, Fid: cur, Newfid: 2, Wname: names})
			if wr == nil || wr.M == nil {
				return
			}
			target := uint32(cur)
			if wr.M.Type == Rwalk {
				for _, q := range wr.M.Wqid {
					checkQid(q, what)
				}
				if len(wr.M.Wqid) == len(names) {
					target = 2
				}
				if aname == "" && cur == 0 && len(names) > 0 && len(wr.M.Wqid) > 0 && names[0] == ".." && wr.M.Wqid[0].Path != ar.M.Qid.Path {
					x.Violate("x3-dotdot-at-root", "'..' at the root of the exported tree yields qid path %d, the root's (as reported by Rattach) is %d", wr.M.Wqid[0].Path, ar.M.Qid.Path)
				}
				if len(names) > 0 && names[0] == ".." {
					x.Probe("dotdot-walk")
				}
			}
			// every kind of access through whatever fid resulted
			if sr := call(&Msg{Type: Tstat, Fid: target}); sr != nil && sr.M != nil && sr.M.Type == Rstat {
				checkQid(sr.M.Stat.Qid, what+" + Tstat")
			}
			// create with an evil name (in a directory fid)
			en := evilName(r, real, u.Outer)
			if cr := call(&Msg{Type: Twalk, Fid: target, Newfid: 3, Wname: nil}); cr != nil && cr.M != nil && cr.M.Type == Rwalk {
				perm, ext := uint32(0o644), ""
				switch k := r.Intn(12); {
				case k < 3:
					perm = 0x80000000 | 0o755
				case k == 3 && dotu: // symbolic link
					perm, ext = 0x02000000|0o777, []string{"file", "sub", "nowhere"}[r.Intn(3)]
					x.Probe("create-special-kind")
				case k == 4 && dotu: // hard link to the object of fid 0
					perm, ext = 0x01000000|0o644, "0"
					x.Probe("create-special-kind")
				case k == 5 && dotu: // named pipe, device, socket
					perm, ext = uint32(r.Pick(0x00200000, 0x00800000, 0x00100000))|0o644, []string{"", "c 1 3"}[r.Intn(2)]
					x.Probe("create-special-kind")
				}
				if rr := call(&Msg{Type: Tcreate, Fid: 3, Name: en, Perm: perm, Mode: uint8(r.Pick(0, 1, 2)), Ext: ext}); rr != nil && rr.M != nil && rr.M.Type == Rcreate {
					what := fmt.Sprintf("%s + Tcreate(%q, perm %#x)", what, en, perm)
					checkQid(rr.M.Qid, what)
					if rd := call(&Msg{Type: Tread, Fid: 3, Offset: 0, Count: 200}); rd != nil && rd.M != nil && rd.M.Type == Rread && bytes.Contains(rd.M.Data, []byte(canaryText)) {
						x.Violate("x1-read-outside", "%s: a read through the fid of the created object returned the content of a file outside the exported tree", what)
					}
					call(&Msg{Type: Twrite, Fid: 3, Offset: 0, Count: 4, Data: []byte("evil")})
					// the fid now designates whatever was created: look at it, and around it
					if sr := call(&Msg{Type: Tstat, Fid: 3}); sr != nil && sr.M != nil && sr.M.Type == Rstat {
						checkQid(sr.M.Stat.Qid, what+" + Tstat")
					}
					if wr := call(&Msg{Type: Twalk, Fid: 3, Newfid: 5, Wname: []string{"canary.txt"}}); wr != nil && wr.M != nil && wr.M.Type == Rwalk {
						for _, q := range wr.M.Wqid {
							checkQid(q, what+" + Twalk(canary.txt)")
						}
						if len(wr.M.Wqid) == 1 {
							call(&Msg{Type: Tclunk, Fid: 5})
						}
					}
				}
				call(&Msg{Type: Tclunk, Fid: 3})
			}
			// a rename through a fid that designates the exported root itself, or a directory just below it: a
			// plain name then lands next to the root
			if aname == "" && r.Pct(35) {
				var wn []string
				if r.Bool() {
					wn = []string{"sub", ".."}
				}
				if cr := call(&Msg{Type: Twalk, Fid: 0, Newfid: 6, Wname: wn}); cr != nil && cr.M != nil && cr.M.Type == Rwalk && len(cr.M.Wqid) == len(wn) {
					nn := []string{"moved", "canary.txt", "root.bak", evilName(r, real, u.Outer)}[r.Intn(4)]
					call(&Msg{Type: Twstat, Fid: 6, Stat: nullStat(func(s *Stat) { s.Name = nn })})
					if sr := call(&Msg{Type: Tstat, Fid: 6}); sr != nil && sr.M != nil && sr.M.Type == Rstat {
						checkQid(sr.M.Stat.Qid, fmt.Sprintf("rename of the root fid to %q, then Tstat", nn))
					}
					if wr := call(&Msg{Type: Twalk, Fid: 6, Newfid: 7, Wname: []string{"..", "canary.txt"}}); wr != nil && wr.M != nil && wr.M.Type == Rwalk {
						for _, q := range wr.M.Wqid {
							checkQid(q, fmt.Sprintf("rename of the root fid to %q, then walk '..', 'canary.txt'", nn))
						}
						if len(wr.M.Wqid) == 2 {
							call(&Msg{Type: Tclunk, Fid: 7})
						}
					}
					call(&Msg{Type: Tclunk, Fid: 6})
					x.Probe("rename-through-the-root-fid")
					if _, err := os.Lstat(u.Root); err != nil {
						// the exported directory itself is gone from its place
						x.Violate("x4-outside-modified", "a Twstat renaming the fid of the exported root to %q moved the exported directory itself", nn)
						return
					}
				}
			}
			// a directory two levels down is renamed, through its own fid, to the top of the tree; from that fid
			// '..' may now be taken once, not twice
			if aname == "" && r.Pct(25) {
				if cr := call(&Msg{Type: Twalk, Fid: 0, Newfid: 11, Wname: []string{"sub", "deep"}}); cr != nil && cr.M != nil && cr.M.Type == Rwalk && len(cr.M.Wqid) == 2 {
					nn := []string{"/moved-deep", "../../moved-deep"}[r.Intn(2)]
					rr := call(&Msg{Type: Twstat, Fid: 11, Stat: nullStat(func(s *Stat) { s.Name = nn })})
					if wr := call(&Msg{Type: Twalk, Fid: 11, Newfid: 12, Wname: []string{"..", "..", "canary.txt"}}); wr != nil && wr.M != nil && wr.M.Type == Rwalk {
						for _, q := range wr.M.Wqid {
							checkQid(q, fmt.Sprintf("rename of sub/deep to %q through its fid, then walk '..', '..', 'canary.txt' from it", nn))
						}
						if len(wr.M.Wqid) == 3 {
							if or := call(&Msg{Type: Topen, Fid: 12, Mode: 0}); or != nil && or.M != nil && or.M.Type == Ropen {
								if rd := call(&Msg{Type: Tread, Fid: 12, Offset: 0, Count: 200}); rd != nil && rd.M != nil && rd.M.Type == Rread && bytes.Contains(rd.M.Data, []byte(canaryText)) {
									x.Violate("x1-read-outside", "after renaming a directory to a shallower place through its fid, '..' twice from that fid led outside the tree")
								}
							}
							call(&Msg{Type: Tclunk, Fid: 12})
						}
					}
					call(&Msg{Type: Tclunk, Fid: 11})
					if rr != nil && rr.M != nil && rr.M.Type == Rwstat {
						x.Probe("directory-moved-up-through-its-fid")
					}
					// put things back for the attacks that follow
					if _, err := os.Lstat(filepath.Join(u.Root, "moved-deep")); err == nil {
						os.Rename(filepath.Join(u.Root, "moved-deep"), filepath.Join(u.Root, "sub", "deep"))
					}
				}
			}
			// two walks in one segment: the second starts from the new fid of the first, which is still in progress
			if aname == "" && r.Pct(35) {
				d := dirs[r.Intn(len(dirs))]
				first := append(splitRel(d), ".", ".", ".", ".")
				if len(first) > 16 {
					first = first[:16]
				}
				var second []string
				for _, e := range strings.Split(strings.TrimPrefix(filepath.Join(u.Outer, "canary.txt"), "/"), "/") {
					second = append(second, e)
				}
				if dotu && r.Pct(40) {
					// a create pipelined on the new fid of the walk that is still making it: wherever the create is
					// caught, its name is resolved inside the tree (a named pipe called like a directory of the host's root)
					tag += 2
					ss := p.Write(&Msg{Type: Twalk, Tag: tag - 1, Fid: 0, Newfid: 8, Wname: first},
						&Msg{Type: Tcreate, Tag: tag, Fid: 8, Name: "etc", Perm: 0x00200000 | 0o644, Mode: 0})
					rt.YieldUntil(rt.SiteActor, func() bool { return allReplied(ss) || p.EOF })
					if p.EOF {
						x.Violate("x0-stalled", "the connection was dropped after a create pipelined behind a walk")
						return
					}
					if cr := ss[1].Reply; cr != nil && cr.M != nil && cr.M.Type == Rcreate {
						checkQid(cr.M.Qid, "Tcreate(named pipe \"etc\") on fid 8 pipelined behind the Twalk that creates fid 8")
					}
					call(&Msg{Type: Tclunk, Fid: 8})
					x.Probe("create-pipelined-on-a-fid-being-walked")
				} else if len(second) <= 16 {
					tag += 3
					ss := p.Write(&Msg{Type: Twalk, Tag: tag - 2, Fid: 0, Newfid: 8, Wname: first},
						&Msg{Type: Twalk, Tag: tag - 1, Fid: 8, Newfid: 9, Wname: second},
						&Msg{Type: Tstat, Tag: tag, Fid: 9})
					rt.YieldUntil(rt.SiteActor, func() bool { return allReplied(ss) || p.EOF })
					if p.EOF {
						x.Violate("x0-stalled", "the connection was dropped after two pipelined walks")
						return
					}
					if wr := ss[1].Reply; wr != nil && wr.M != nil && wr.M.Type == Rwalk {
						for _, q := range wr.M.Wqid {
							checkQid(q, fmt.Sprintf("Twalk from fid 8 by %q pipelined behind the Twalk that creates fid 8", second))
						}
					}
					if sr := ss[2].Reply; sr != nil && sr.M != nil && sr.M.Type == Rstat {
						checkQid(sr.M.Stat.Qid, "Tstat after two pipelined walks")
						if or := call(&Msg{Type: Topen, Fid: 9, Mode: 0}); or != nil && or.M != nil && or.M.Type == Ropen {
							if rr := call(&Msg{Type: Tread, Fid: 9, Offset: 0, Count: 200}); rr != nil && rr.M != nil && rr.M.Type == Rread && bytes.Contains(rr.M.Data, []byte(canaryText)) {
								x.Violate("x1-read-outside", "two pipelined walks led to a fid through which a file outside the exported tree was read")
							}
						}
					}
					call(&Msg{Type: Tclunk, Fid: 8})
					call(&Msg{Type: Tclunk, Fid: 9})
					x.Probe("walk-pipelined-on-a-fid-being-walked")
				}
			}
			// rename with an evil target
			rn := evilName(r, real, u.Outer)
			rsrc := [][]string{{"sub", "file"}, {"sub", "file"}, {"sub", "deep", "dfile"}, {"rfile"}}[r.Intn(4)]
			os.WriteFile(filepath.Join(u.Root, filepath.Join(rsrc...)), []byte("inside"), 0o644)
			if cr := call(&Msg{Type: Twalk, Fid: 0, Newfid: 4, Wname: rsrc}); cr != nil && cr.M != nil && cr.M.Type == Rwalk && len(cr.M.Wqid) == len(rsrc) && aname == "" {
				call(&Msg{Type: Twstat, Fid: 4, Stat: nullStat(func(s *Stat) { s.Name = rn })})
				call(&Msg{Type: Tclunk, Fid: 4})
				// put it back if it moved inside the tree
				if _, err := os.Lstat(filepath.Join(u.Root, "sub", "file")); err != nil {
					os.WriteFile(filepath.Join(u.Root, "sub", "file"), []byte("inside"), 0o644)
				}
			}
			// open + read / readdir / write through the target
			if or := call(&Msg{Type: Topen, Fid: target, Mode: 0}); or != nil && or.M != nil && or.M.Type == Ropen {
				checkQid(or.M.Qid, what+" + Topen")
				if rr := call(&Msg{Type: Tread, Fid: target, Offset: 0, Count: ms - 24}); rr != nil && rr.M != nil && rr.M.Type == Rread {
					if bytes.Contains(rr.M.Data, []byte(canaryText)) {
						x.Violate("x1-read-outside", "%s: a read returned the content of a file outside the exported tree", what)
					}
					if or.M.Qid.Type&0x80 != 0 {
						if recs, err := splitRecords(rr.M.Data, p.Dotu); err == nil {
							for _, st := range recs {
								// (a legitimate rename inside the tree may produce a file called canary.txt: judge by inode, not by name)
								checkQid(st.Qid, what+" + directory read")
							}
						}
					}
				}
			}
			// remove through the target (never the root itself)
			if target != 0 && r.Pct(40) {
				call(&Msg{Type: Tremove, Fid: target})
			}
			sc.Clnt.Close()
		}
		finished = true
	})
	if !x.Run() {
		return
	}
	u.CountFaults()
	if after := c18Outside(u); after != outsideBefore {
		x.Violate("x4-outside-modified", "something outside the exported tree was created, modified, renamed or removed:\nbefore: %s\nafter:  %s", outsideBefore, after)
	}
	if !finished && len(x.Res.Viol) == 0 {
		x.Violate("x0-stalled", "the session did not finish")
	}
}

// c18Outside describes everything of the run's scratch area that is not the exported tree.
func c18Outside(u *UfsSys) string {
	var b strings.Builder
	filepath.Walk(u.Base, func(p string, fi os.FileInfo, err error) error {
		if p == u.Root {
			fmt.Fprintf(&b, "[root %o] ", fi.Mode().Perm())
			return filepath.SkipDir
		}
		if err != nil {
			return nil
		}
		rel, _ := filepath.Rel(u.Base, p)
		fmt.Fprintf(&b, "%s:%v:%d", rel, fi.Mode(), fi.ModTime().UnixNano())
		if fi.Mode().IsRegular() {
			d, _ := os.ReadFile(p)
			fmt.Fprintf(&b, ":%x", fnvBytes(d))
		}
		b.WriteString(" ")
		return nil
	})
	return b.String()
}
