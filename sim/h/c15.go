package h

// C15 — directory reads return whole entries, each exactly once
// (DESIGN.md §4 C15). Raw peer (exact offsets and counts) and the client's
// Readdir against the real Ufs on a scratch directory.

import (
	"fmt"
	"os"
	"path/filepath"
	"sort"
	"strings"

	"github.com/rminnich/go9p"
	"github.com/rminnich/go9p/vsim/rt"
)

func init() { register(&Property{ID: "C15", Gen: c15Gen, Exec: c15Exec}) }

func c15Gen(seed uint64, run int, tier string) *Case {
	r := NewRand(seed)
	c := &Case{Cfg: map[string]int64{}}
	genCommon(r, c.Cfg)
	if c.Cfg["seg"] == rt.SegOne || c.Cfg["seg"] == rt.SegTiny {
		c.Cfg["seg"] = rt.SegRandom
	}
	c.Cfg["maxsteps"] = 3000000
	ms := r.Pick(256, 512, 1024, 8192, 65536)
	c.Cfg["msize"] = int64(ms)
	c.Cfg["dotu"] = int64(r.Intn(2))
	n := r.Pick(0, 1, 2, 3, 7, 50, 50, 130)
	if tier == "thorough" && r.Pct(10) {
		n = r.Pick(1000, 3000)
	}
	c.Cfg["n"] = int64(n)
	maxName := ms - 24 - 100
	if maxName > 255 {
		maxName = 255
	}
	c.Cfg["maxname"] = int64(maxName)
	// listing mode: 0 fixed count (enumerated over the interesting range by run index), 1 random counts, 2 restart at 0 mid-listing,
	// 3 client Readdir, 4 count too small
	c.Cfg["mode"] = int64(run % 5)
	c.Cfg["countsel"] = int64(run / 5)
	c.Stratum = []string{"fixed-count", "random-counts", "restart-mid-listing", "client-readdir", "count-too-small"}[run%5]
	if run%50 == 23 {
		// one entry too large for any reply on this connection: reaching it is an error, it is not passed over
		c.Stratum = "entry-larger-than-msize"
		c.Cfg["oversized"] = 1
		c.Cfg["msize"] = int64(r.Pick(256, 300, 330))
		c.Cfg["n"] = int64(r.Pick(0, 1, 2, 5))
		c.Cfg["maxname"] = 40
		c.Cfg["mode"] = int64(r.Pick(0, 3))
		return c
	}
	if (tier == "thorough" && run%250 == 7) || (tier != "thorough" && (run == 7 || run == 1008)) {
		// thousands of entries with long names: the packed listing is larger than a megabyte
		c.Stratum = "huge-directory+" + c.Stratum
		c.Cfg["n"], c.Cfg["minname"], c.Cfg["maxname"] = 4000, 200, 255
		c.Cfg["msize"] = 65536
		c.Cfg["seg"] = rt.SegRandom
		c.Cfg["mode"] = int64(r.Pick(0, 3))
		c.Cfg["countsel"] = 1 << 20 // the largest count
		c.Cfg["maxsteps"] = 6000000
	}
	return c
}

func c15Names(seed uint64, n, maxName int, minName ...int) []string {
	r := NewRand(seed ^ 0xD1D1)
	seen := map[string]bool{}
	var out []string
	for len(out) < n {
		l := r.Pick(1, 2, 5, 20, maxName, r.Range(1, maxName))
		if len(minName) > 0 && minName[0] > 0 {
			l = r.Range(minName[0], maxName)
		}
		if l > maxName {
			l = maxName
		}
		b := make([]byte, l)
		for i := range b {
			b[i] = "abcdefghijklmnopqrstuvwxyzABCDEFGHIJKLMNOPQRSTUVWXYZ0123456789-_. "[r.Intn(66)]
		}
		if r.Pct(12) {
			// a file name is any bytes but '/' and NUL: Latin-1 letters, a stray byte-order mark, runs of bytes that
			// are not UTF-8 at all
			for k := r.Range(1, 3); k > 0; k-- {
				at := r.Intn(l)
				for _, ch := range [][]byte{{0xE9}, {0xFF, 0xFE}, {0xC3}, {0x80, 0x81, 0x82}, {0xEF, 0xBB, 0xBF}}[r.Intn(5)] {
					if at < l {
						b[at] = ch
						at++
					}
				}
			}
		}
		s := strings.TrimSpace(string(b))
		if s == "" || s == "." || s == ".." || seen[s] {
			s = fmt.Sprintf("%s%d", s, len(out))
			if len(s) > maxName || seen[s] || strings.TrimSpace(s) != s {
				continue
			}
		}
		seen[s] = true
		out = append(out, s)
	}
	return out
}

// splitRecords decodes a directory read payload into whole stat records.
func splitRecords(b []byte, dotu bool) ([]*Stat, error) {
	var out []*Stat
	for len(b) > 0 {
		st, used, err := DecodeStat(b, dotu)
		if err != nil {
			return out, fmt.Errorf("record %d at payload offset: %v", len(out), err)
		}
		out = append(out, st)
		b = b[used:]
	}
	return out, nil
}

func c15Exec(x *Ctx) {
	c15Fid = 1
	c := x.C
	ms := uint32(c.cfg("msize"))
	dotu := c.cfg("dotu") != 0
	u := NewUfsSys(x, ms, true, 2, 0)
	if u == nil {
		return
	}
	defer u.Cleanup()
	dir := filepath.Join(u.Root, "d")
	os.Mkdir(dir, 0o755)
	names := c15Names(c.Seed, int(c.cfg("n")), int(c.cfg("maxname")), int(c.cfg("minname")))
	for i, n := range names {
		p := filepath.Join(dir, n)
		switch i % 10 {
		case 3, 8:
			os.Mkdir(p, 0o750)
		case 1:
			os.Symlink("nope", p) // dangling (targets are short: in 9P2000.u they are part of the entry)
		case 6:
			os.Symlink([]string{"lp1", "..", "lp2", "."}[i/10%4], p) // into a loop, to the parent, to the directory itself
		case 7:
			os.WriteFile(p, fileContent(n, i%7*13), 0o640)
			os.Chown(p, 64242, 64243) // owner and group without a name on this host
		case 5:
			// a further name for an earlier file: hard links are entries like any other
			if err := os.Link(filepath.Join(dir, names[i-1]), p); err != nil {
				os.WriteFile(p, fileContent(n, i%7*13), 0o640)
			}
		default:
			os.WriteFile(p, fileContent(n, i%7*13), 0o640)
		}
	}
	if ms >= 8192 && len(names) >= 2 && c.Seed%7 == 3 {
		// one entry of more than 4 KiB: in 9P2000.u a symbolic link's target is part of its entry
		os.Symlink(strings.Repeat("t/", 2030)+"x", filepath.Join(dir, "long-target"))
	}
	if len(names) >= 3 {
		os.Symlink("lp2", filepath.Join(dir, "lp1")) // two links that point at each other
		os.Symlink("lp1", filepath.Join(dir, "lp2"))
	}
	if c.cfg("oversized") != 0 {
		os.WriteFile(filepath.Join(dir, strings.Repeat("L", 252)), nil, 0o640)
		c15Oversized(x, u, ms, dotu)
		return
	}
	want := map[string]bool{}
	if es, err := os.ReadDir(dir); err == nil {
		for _, e := range es {
			want[e.Name()] = true
		}
	}
	mode := int(c.cfg("mode"))
	finished := false
	if mode == 3 {
		rt.Go(rt.SiteSpawn, func() {
			rt.SetName("client")
			go9p.DefaultDebuglevel, go9p.DefaultLogger = 0, nil
			clnt, _, err := u.Mount(ms-24, dotu, int(c.cfg("seg")), "")
			if err != nil {
				x.Violate("g0-mount", "mount failed: %v", err)
				return
			}
			for _, num := range []int{0} { // the statement covers Readdir(0) only
				f, err := clnt.FOpen("d", go9p.OREAD)
				if err != nil {
					x.Violate("g0-mount", "FOpen of the directory failed: %v", err)
					return
				}
				var got []string
				for iter := 0; iter < len(names)+3; iter++ {
					ds, err := f.Readdir(num)
					if err != nil {
						x.Violate("g5-readdir", "Readdir(%d) failed after %d entries of %d: %v", num, len(got), len(want), err)
						return
					}
					for _, d := range ds {
						got = append(got, d.Name)
					}
					if num == 0 || len(ds) == 0 {
						break
					}
				}
				if bad := cmpNames(got, want); bad != "" {
					x.Violate("g5-readdir", "Readdir(%d) over a directory of %d entries (msize %d): %s", num, len(want), ms, bad)
				}
				f.Close()
			}
			x.Probe("client-readdir")
			finished = true
		})
	} else {
		sc := u.Raw(int(c.cfg("seg")))
		p := sc.Peer
		rt.Go(rt.SiteSpawn, func() {
			rt.SetName("raw-client")
			if !rawAttach(p, ms, dotu, "") {
				x.Violate("g0-mount", "attach failed")
				return
			}
			if r := p.Call(&Msg{Type: Twalk, Tag: 2, Fid: 0, Newfid: 1, Wname: []string{"d"}}); r == nil || r.M == nil || r.M.Type != Rwalk || len(r.M.Wqid) != 1 {
				x.Violate("g0-mount", "walk to the directory failed")
				return
			}
			if r := p.Call(&Msg{Type: Topen, Tag: 3, Fid: 1, Mode: 0}); r == nil || r.M == nil || r.M.Type != Ropen {
				x.Violate("g0-mount", "open of the directory failed")
				return
			}
			if c.Seed%3 == 1 {
				// requests the protocol refuses on an open directory fid (a second open for writing, a create): they
				// change nothing about the listing that follows
				p.Call(&Msg{Type: Topen, Tag: 4, Fid: 1, Mode: uint8([]int{1, 2, 16, 17}[c.Seed/3%4])})
				p.Call(&Msg{Type: Tcreate, Tag: 5, Fid: 1, Name: "never", Perm: 0o644, Mode: 1})
				x.Probe("refused-open-and-create-on-the-open-directory-fid")
			}
			// learn the entry sizes with one generous listing
			maxc := int(p.Msize) - 24
			sizes, ok := c15List(x, p, func(int) int { return maxc }, want, "generous count", dotu, -1)
			if !ok {
				return
			}
			largest, total := 0, 0
			for _, s := range sizes {
				if s > largest {
					largest = s
				}
				total += s
			}
			if largest == 0 {
				largest = 1
			}
			sel := int(c.cfg("countsel"))
			switch mode {
			case 0:
				// every count from the largest entry size up to about three entries, chosen by run index
				span := 2*largest + 8
				cnt := largest + sel%span
				if cnt > maxc || c.cfg("minname") > 0 {
					cnt = maxc
				}
				if len(want) >= 1000 {
					x.Probe("directory-of-1000+-entries")
				}
				c15List(x, p, func(int) int { return cnt }, want, fmt.Sprintf("fixed count %d (largest entry %d)", cnt, largest), dotu, -1)
				x.Probe("fixed-count-listing")
			case 1:
				if k := []int{63, 64, 65, 127, 128, 129}[sel%6]; len(sizes) > k && sel%2 == 0 {
					// the first read asks for exactly the first k entries (a reply that is filled to the last byte),
					// the rest is read generously
					cum := 0
					for _, sz := range sizes[:k] {
						cum += sz
					}
					if cum <= maxc {
						c15List(x, p, func(i int) int {
							if i == 0 {
								return cum
							}
							return maxc
						}, want, fmt.Sprintf("first read of exactly %d entries (%d bytes), then generous counts", k, cum), dotu, -1)
						x.Probe("first-reply-filled-exactly-by-64ish-entries")
						break
					}
				}
				c15List(x, p, func(int) int { return minInt(maxc, largest+rt.Choose(2*largest+1)) }, want, "random counts >= largest entry", dotu, -1)
			case 2:
				// stop after some replies, then start again at offset 0
				c15List(x, p, func(int) int { return minInt(maxc, largest+sel%(largest+1)) }, want, "partial listing", dotu, 1+sel%3)
				if sel%2 == 1 {
					// the directory changes between the abandoned listing and the new one, and keeps its
					// modification time (as after tar / rsync -t): offset 0 must list what is there now
					if fi, err := os.Stat(dir); err == nil {
						os.WriteFile(filepath.Join(dir, "zz-added-later"), []byte("x"), 0o640)
						want["zz-added-later"] = true
						for _, n := range names {
							if want[n] {
								if os.RemoveAll(filepath.Join(dir, n)) == nil {
									delete(want, n)
								}
								break
							}
						}
						os.Chtimes(dir, fi.ModTime(), fi.ModTime())
						x.Probe("directory-changed-before-rewind")
					}
				}
				if sel%2 == 1 {
					largest = maxc // the added entry's size is not known here
				}
				c15List(x, p, func(int) int { return minInt(maxc, largest+sel%(largest+1)) }, want, "listing restarted at offset 0", dotu, -1)
				x.Probe("restart-at-zero-mid-listing")
			case 4:
				// a count smaller than the next entry must be refused with an error, not answered empty or truncated
				if len(sizes) > 0 {
					small := sizes[0] - 1 - sel%sizes[0]
					if small < 0 {
						small = 0
					}
					r := p.Call(&Msg{Type: Tread, Tag: 9, Fid: 1, Offset: 0, Count: uint32(small)})
					if r == nil || r.M == nil {
						x.Violate("g4-too-small", "no reply to a directory read with count %d", small)
					} else if r.M.Type != Rerror {
						x.Violate("g4-too-small", "a directory read with count %d, smaller than the first entry (%d bytes), was answered with %d bytes instead of an error", small, sizes[0], len(r.M.Data))
					}
					x.Probe("count-too-small")
					// the same as the very first read of a freshly opened fid, which must then list normally
					if w := p.Call(&Msg{Type: Twalk, Tag: 20, Fid: 0, Newfid: 2, Wname: []string{"d"}}); w != nil && w.M != nil && w.M.Type == Rwalk {
						if o := p.Call(&Msg{Type: Topen, Tag: 21, Fid: 2, Mode: 0}); o != nil && o.M != nil && o.M.Type == Ropen {
							r := p.Call(&Msg{Type: Tread, Tag: 22, Fid: 2, Offset: 0, Count: uint32(small)})
							if r == nil || r.M == nil || r.M.Type != Rerror {
								x.Violate("g4-too-small", "the first read of a freshly opened directory fid, with count %d smaller than the first entry (%d bytes), was not answered with an error", small, sizes[0])
							}
							c15Fid = 2
							c15List(x, p, func(int) int { return maxc }, want, "listing through a fid whose first read was refused as too small", dotu, -1)
							c15Fid = 1
							x.Probe("too-small-first-read-then-listing")
						}
					}
					// the same in the middle of the listing: read up to entry k, then offer less than entry k needs
					k := (sel / 7) % len(sizes)
					prefix := 0
					for _, sz := range sizes[:k] {
						prefix += sz
					}
					off := 0
					for off < prefix {
						cnt := minInt(maxc, prefix-off)
						r := p.Call(&Msg{Type: Tread, Tag: 10, Fid: 1, Offset: uint64(off), Count: uint32(cnt)})
						if r == nil || r.M == nil || r.M.Type != Rread || len(r.M.Data) == 0 || len(r.M.Data) > cnt {
							x.Violate("g1-error", "directory read at offset %d with count %d (the entries up to there take %d bytes) failed or returned nothing", off, cnt, prefix)
							return
						}
						off += len(r.M.Data)
					}
					if k > 0 {
						small := sizes[k] - 1 - (sel/3)%sizes[k]
						r := p.Call(&Msg{Type: Tread, Tag: 11, Fid: 1, Offset: uint64(off), Count: uint32(small)})
						if r == nil || r.M == nil {
							x.Violate("g4-too-small", "no reply to a directory read with count %d at offset %d", small, off)
						} else if r.M.Type != Rerror {
							x.Violate("g4-too-small", "a directory read at offset %d (entry %d of %d) with count %d, smaller than that entry (%d bytes), was answered with %d bytes instead of an error", off, k, len(sizes), small, sizes[k], len(r.M.Data))
						}
						x.Probe("count-too-small-mid-listing")
						// and the listing can go on from there
						r = p.Call(&Msg{Type: Tread, Tag: 12, Fid: 1, Offset: uint64(off), Count: uint32(sizes[k])})
						if r == nil || r.M == nil || r.M.Type != Rread || len(r.M.Data) != sizes[k] {
							x.Violate("g1-error", "after a refused too-small read, a read at the same offset %d with exactly the entry's size %d did not return that entry", off, sizes[k])
						}
					}
				}
			}
			finished = true
		})
	}
	if !x.Run() {
		return
	}
	u.CountFaults()
	if !finished && len(x.Res.Viol) == 0 {
		x.Violate("g0-stalled", "the directory session did not finish")
	}
}

// c15List reads the directory following the offset rule and checks every reply.
// It returns the entry sizes in server order. stopAfter >= 0 stops after that many replies.
// c15Fid is the directory fid c15List reads through.
var c15Fid uint32 = 1

func c15List(x *Ctx, p *ClntPeer, count func(i int) int, want map[string]bool, what string, dotu bool, stopAfter int) ([]int, bool) {
	var sizes []int
	var got []string
	off := uint64(0)
	for i := 0; ; i++ {
		if stopAfter >= 0 && i >= stopAfter {
			return sizes, true
		}
		if i > len(want)+5 {
			x.Violate("g3-no-end", "%s: no zero-length reply after %d reads of a directory with %d entries", what, i, len(want))
			return nil, false
		}
		cnt := count(i)
		r := p.Call(&Msg{Type: Tread, Tag: uint16(100 + i%1000), Fid: c15Fid, Offset: off, Count: uint32(cnt)})
		if r == nil || r.M == nil {
			x.Violate("g0-stalled", "%s: directory read got no reply", what)
			return nil, false
		}
		if r.M.Type != Rread {
			x.Violate("g1-error", "%s: read at offset %d with count %d (every entry fits) answered %s after %d of %d entries", what, off, cnt, r.M, len(got), len(want))
			return nil, false
		}
		if len(r.M.Data) > cnt {
			x.Violate("g1-more-than-count", "%s: read with count %d returned %d bytes", what, cnt, len(r.M.Data))
		}
		if len(r.M.Data) == 0 {
			break
		}
		recs, err := splitRecords(r.M.Data, dotu)
		if err != nil {
			x.Violate("g1-partial-record", "%s: the %d-byte reply to a read at offset %d with count %d is not a sequence of whole stat records: %v", what, len(r.M.Data), off, cnt, err)
			return nil, false
		}
		for _, st := range recs {
			got = append(got, st.Name)
			sizes = append(sizes, int(st.Size)+2)
		}
		off += uint64(len(r.M.Data))
	}
	if bad := cmpNames(got, want); bad != "" {
		x.Violate("g2-listing", "%s: %s", what, bad)
		return nil, false
	}
	return sizes, true
}

func cmpNames(got []string, want map[string]bool) string {
	seen := map[string]int{}
	for _, g := range got {
		seen[g]++
	}
	var dup, extra, missing []string
	for g, n := range seen {
		if !want[g] {
			extra = append(extra, g)
		} else if n > 1 {
			dup = append(dup, g)
		}
	}
	for w := range want {
		if seen[w] == 0 {
			missing = append(missing, w)
		}
	}
	sort.Strings(dup)
	sort.Strings(extra)
	sort.Strings(missing)
	if len(dup)+len(extra)+len(missing) == 0 {
		return ""
	}
	short := func(l []string) string {
		if len(l) > 3 {
			return fmt.Sprintf("%q ... (%d)", l[:3], len(l))
		}
		return fmt.Sprintf("%q", l)
	}
	return fmt.Sprintf("listed %d names for %d entries: missing %s, twice %s, not in the directory %s", len(got), len(want), short(missing), short(dup), short(extra))
}

// c15Oversized: the directory holds an entry whose stat record is larger than msize-24. A listing that reaches it
// gets an error there (raw read: Rerror; client Readdir: an error), never a zero-length reply that passes it over.
func c15Oversized(x *Ctx, u *UfsSys, ms uint32, dotu bool) {
	c := x.C
	finished := false
	if c.cfg("mode") == 3 {
		rt.Go(rt.SiteSpawn, func() {
			rt.SetName("client")
			go9p.DefaultDebuglevel, go9p.DefaultLogger = 0, nil
			clnt, _, err := u.Mount(ms-24, dotu, int(c.cfg("seg")), "")
			if err != nil {
				x.Violate("g0-mount", "mount failed: %v", err)
				return
			}
			f, err := clnt.FOpen("d", go9p.OREAD)
			if err != nil {
				x.Violate("g0-mount", "FOpen of the directory failed: %v", err)
				return
			}
			if ds, err := f.Readdir(0); err == nil {
				x.Violate("g5-readdir", "Readdir(0) over a directory with an entry too large for msize %d returned %d entries and no error: the entry was passed over", ms, len(ds))
			}
			f.Close()
			x.Probe("entry-larger-than-msize")
			finished = true
		})
	} else {
		sc := u.Raw(int(c.cfg("seg")))
		p := sc.Peer
		rt.Go(rt.SiteSpawn, func() {
			rt.SetName("raw-client")
			if !rawAttach(p, ms, dotu, "") {
				x.Violate("g0-mount", "attach failed")
				return
			}
			if r := p.Call(&Msg{Type: Twalk, Tag: 2, Fid: 0, Newfid: 1, Wname: []string{"d"}}); r == nil || r.M == nil || r.M.Type != Rwalk {
				x.Violate("g0-mount", "walk to the directory failed")
				return
			}
			if r := p.Call(&Msg{Type: Topen, Tag: 3, Fid: 1, Mode: 0}); r == nil || r.M == nil || r.M.Type != Ropen {
				x.Violate("g0-mount", "open of the directory failed")
				return
			}
			off, cnt := uint64(0), p.Msize-24
			for i := 0; i < 20; i++ {
				r := p.Call(&Msg{Type: Tread, Tag: uint16(10 + i), Fid: 1, Offset: off, Count: cnt})
				if r == nil || r.M == nil {
					x.Violate("g0-stalled", "directory read got no reply")
					return
				}
				if r.M.Type == Rerror {
					x.Probe("entry-larger-than-msize")
					finished = true
					return
				}
				if len(r.M.Data) == 0 {
					x.Violate("g4-too-small", "a listing with the largest possible count (%d) ended with a zero-length reply at offset %d although the directory holds an entry that fits no reply: it was passed over instead of being refused", cnt, off)
					return
				}
				if _, err := splitRecords(r.M.Data, p.Dotu); err != nil {
					x.Violate("g1-partial-record", "a reply is not a sequence of whole stat records: %v", err)
					return
				}
				off += uint64(len(r.M.Data))
			}
			x.Violate("g3-no-end", "the listing neither ended nor failed")
		})
	}
	if !x.Run() {
		return
	}
	u.CountFaults()
	if !finished && len(x.Res.Viol) == 0 {
		x.Violate("g0-stalled", "the directory session did not finish")
	}
}
