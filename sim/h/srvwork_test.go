package h

// Shared server-side workload machinery for C03, C07, C08, C11, C13 (and the
// race build): raw client peers pipeline generated requests at a go9p server
// running the scripted implementation.

import (
	"bytes"
	"fmt"
	"strings"

	"github.com/rminnich/go9p/vsim/rt"
)

var wTypes = []uint8{Tstat, Tread, Twrite, Twalk, Topen, Tcreate, Twstat, Tclunk, Tremove}

const (
	wtStat = iota
	wtRead
	wtWrite
	wtWalk
	wtOpen
	wtCreate
	wtWstat
	wtClunk
	wtRemove
	nWTypes
)

// flush placements
const (
	fpSameSeg   = iota // same transport write as the preceding request on the target slot
	fpNoWait           // own write, no waiting
	fpWhenHeld         // once the target is parked inside the implementation
	fpAfterDone        // once the target's reply has arrived (old tag no longer outstanding)
	nPlacements
)

type wReq struct {
	Idx, Conn int
	Op        Op
	IsFlush   bool
	TypeIdx   int
	Type      uint8
	Slot      int
	Tag       uint16
	Fid       uint32
	Newfid    uint32
	Mode      int
	Err       bool
	N         int
	SegBreak  bool
	OnFlush   int
	Shared    bool // issued without waiting for the slot's previous holder (deliberately shared tag)
	Sent      *Sent
	prev      *wReq // previous request on the same slot
	// flush only
	TargetSlot int
	Placement  int
	Target     *wReq
	// cancellation bookkeeping (set when an Rflush for it arrives with no earlier reply)
	Cancelled   bool
	CancelledBy *Recvd
	FlushedBy   []*wReq
	Msg         *Msg
	key         string // conn/type/fid/offset, computed once (never format inside scheduler-evaluated conditions)
}

func (q *wReq) String() string {
	if q.IsFlush {
		return fmt.Sprintf("#%d c%d Tflush tag=%d oldslot=%d place=%d", q.Idx, q.Conn, q.Tag, q.TargetSlot, q.Placement)
	}
	return fmt.Sprintf("#%d c%d %s tag=%d fid=%d mode=%d err=%v n=%d", q.Idx, q.Conn, TypeName(q.Type), q.Tag, q.Fid, q.Mode, q.Err, q.N)
}

type SrvWork struct {
	x                *Ctx
	sys              *SrvSys
	fs               *ScriptFS
	reqs             []*wReq
	byConn           [][]*wReq
	byKey            map[string]*wReq
	msize            uint32
	dotu             bool
	actors           []*rt.G
	setupOK          []bool
	ReleaseOrder     []int
	FirstQuiescence  func() // called at the first quiescence, before any release
	AfterEachRelease func()
}

func sharedReqOp(conn, typeIdx, slot, mode int, err bool, n int, segbreak bool, onflush int) Op {
	o := reqOp(conn, typeIdx, slot, mode, err, n, segbreak, onflush)
	o.A = append(o.A, 1)
	return o
}

func reqOp(conn, typeIdx, slot, mode int, err bool, n int, segbreak bool, onflush int) Op {
	e, s := int64(0), int64(0)
	if err {
		e = 1
	}
	if segbreak {
		s = 1
	}
	return Op{K: "req", A: []int64{int64(conn), int64(typeIdx), int64(slot), int64(mode), e, int64(n), s, int64(onflush)}}
}

func flushOp(conn, slot, targetSlot, placement int, segbreak bool) Op {
	s := int64(0)
	if segbreak {
		s = 1
	}
	return Op{K: "flush", A: []int64{int64(conn), int64(slot), int64(targetSlot), int64(placement), s}}
}

// NewSrvWork builds the system and decodes the ops. auth is never used here.
func NewSrvWork(x *Ctx, flushop bool) *SrvWork {
	c := x.C
	w := &SrvWork{x: x, byKey: map[string]*wReq{}, msize: uint32(c.cfg("msize")), dotu: c.cfg("dotu") != 0}
	fs := NewScriptFS(x)
	fs.AutoRelease = c.cfg("autorel") != 0
	fs.FlushAlways = c.cfg("flushalways") != 0
	w.fs = fs
	nconn := int(c.cfg("nconn"))
	if nconn < 1 {
		nconn = 1
	}
	w.sys = NewSrvSys(x, fs.OpsValue(false, flushop), fs, w.msize, c.cfg("sdotu") != 0, int(c.cfg("maxpend")), int(c.cfg("debug")))
	w.byConn = make([][]*wReq, nconn)
	lastOnSlot := map[[2]int]*wReq{}
	for i, op := range c.Ops {
		if op.K != "req" && op.K != "flush" {
			continue
		}
		q := &wReq{Idx: i, Op: op, Conn: int(op.a(0)) % nconn}
		if op.K == "flush" {
			q.IsFlush = true
			q.Type = Tflush
			q.Slot = int(op.a(1))
			q.TargetSlot = int(op.a(2))
			q.Placement = int(op.a(3)) % nPlacements
			q.SegBreak = op.a(4) != 0
			q.Target = lastOnSlot[[2]int{q.Conn, q.TargetSlot}]
		} else {
			q.TypeIdx = int(op.a(1)) % nWTypes
			q.Type = wTypes[q.TypeIdx]
			q.Slot = int(op.a(2))
			q.Mode = int(op.a(3))
			q.Err = op.a(4) != 0
			q.N = int(op.a(5))
			q.SegBreak = op.a(6) != 0
			q.OnFlush = int(op.a(7))
			q.Shared = op.a(8) != 0
			q.Fid = uint32(100 + i)
			q.Newfid = uint32(5000 + i)
		}
		q.Tag = uint16(q.Slot) ^ uint16(c.cfg("tagxor")) // any 16-bit value is a tag
		q.prev = lastOnSlot[[2]int{q.Conn, q.Slot}]
		lastOnSlot[[2]int{q.Conn, q.Slot}] = q
		if q.IsFlush && q.Target != nil {
			q.Target.FlushedBy = append(q.Target.FlushedBy, q)
		}
		w.reqs = append(w.reqs, q)
		w.byConn[q.Conn] = append(w.byConn[q.Conn], q)
		if !q.IsFlush {
			q.key = fmt.Sprintf("%d/%d/%d/%d", q.Conn, q.Type, q.Fid, w.nonce(q))
			w.byKey[q.key] = q
		}
	}
	fs.PlanFor = w.planFor
	for i := 0; i < nconn; i++ {
		w.sys.AddConn(int(c.cfg("cap")), int(c.cfg("seg")))
	}
	w.setupOK = make([]bool, nconn)
	return w
}

func (w *SrvWork) nonce(q *wReq) uint64 {
	if q.Type == Tread || q.Type == Twrite {
		return uint64(q.Idx)*1000003 + 17
	}
	return 0
}

func needsDir(t uint8) bool { return t == Twalk || t == Tcreate }

func (w *SrvWork) planFor(inv *Inv) *Plan {
	if q := w.byKey[inv.Key]; q != nil && q.Tag == inv.Tag {
		return &Plan{Mode: q.Mode, Err: q.Err, NWqid: -1, NData: -1, QType: 0, OnFlush: q.OnFlush, SecondErr: w.x.C.cfg("seconderr") != 0}
	}
	// setup traffic
	p := &Plan{NWqid: -1, NData: -1}
	switch inv.Op {
	case "attach":
		p.QType = 0x80
	case "walk":
		// the setup walk for request i binds fid 100+i
		for _, q := range w.reqs {
			if !q.IsFlush && q.Conn == inv.Conn && q.Fid == inv.Newfid && needsDir(q.Type) {
				p.QType = 0x80
			}
		}
	}
	return p
}

func (w *SrvWork) build(q *wReq) *Msg {
	m := &Msg{Type: q.Type, Tag: q.Tag, Fid: q.Fid}
	switch q.Type {
	case Tflush:
		m.Fid = 0
		if q.Target != nil {
			m.Oldtag = q.Target.Tag
		} else {
			m.Oldtag = uint16(q.TargetSlot) ^ uint16(w.x.C.cfg("tagxor"))
		}
	case Tread:
		m.Offset = w.nonce(q)
		m.Count = uint32(q.N)
	case Twrite:
		m.Offset = w.nonce(q)
		m.Data = pattern(q.N, uint64(q.Idx), 3, 9)
		m.Count = uint32(q.N)
	case Twalk:
		if w.x.C.cfg("inplacewalk") != 0 && q.Idx%3 == 1 {
			q.Newfid = q.Fid // a walk in place: the new fid is the old one
		}
		m.Newfid = q.Newfid
		for i := 0; i < q.N%4; i++ {
			m.Wname = append(m.Wname, fmt.Sprintf("w%d", i))
		}
	case Topen:
		m.Mode = uint8(q.N % 3)
	case Tcreate:
		m.Name = fmt.Sprintf("c%d", q.Idx)
		m.Perm = 0o644
		m.Mode = 2
	case Twstat:
		m.Stat = Stat{Type: 0xFFFF, Dev: 0xFFFFFFFF, Qid: Qid{0xFF, 0xFFFFFFFF, 0xFFFFFFFFFFFFFFFF}, Mode: 0o600, Atime: 0xFFFFFFFF, Mtime: uint32(q.Idx),
			Length: 0xFFFFFFFFFFFFFFFF, Name: fmt.Sprintf("r%d", q.Idx), Nuid: 0xFFFFFFFF, Ngid: 0xFFFFFFFF, Nmuid: 0xFFFFFFFF}
		if q.N > 100 {
			// padded to a frame of exactly the msize this connection negotiates: the largest well-formed request
			c := w.x.C
			ms := effMsize(c)
			if o := int(c.cfg("cmsize_other")); o != 0 && q.Conn > 0 && o < ms {
				ms = o
			}
			dotu := (w.dotu != (q.Conn > 0 && c.cfg("dotu_other") != 0)) && c.cfg("sdotu") != 0
			if base := len(Encode(m, dotu)); ms > base && ms-base < 60000 {
				m.Stat.Name += strings.Repeat("n", ms-base)
				w.x.Probe("request-of-exactly-msize")
			}
		}
	}
	q.Msg = m
	return m
}

// slotFree: the previous request on the slot has been answered, or an Rflush
// for it has arrived (the tag may be reused the moment Rflush arrives).
func slotFree(q *wReq) bool {
	p := q.prev
	if p == nil || p.Sent == nil {
		return p == nil
	}
	if !(p.Sent.Reply != nil || p.Cancelled) {
		return false
	}
	// a well-behaved client does not reuse a tag while a Tflush naming it is outstanding
	for _, f := range p.FlushedBy {
		if f.Idx < q.Idx && (f.Sent == nil || f.Sent.Reply == nil) && !f.Cancelled {
			return false
		}
	}
	return true
}

// Start spawns one actor per connection: setup, then the pipelined workload.
func (w *SrvWork) Start() {
	for ci := range w.byConn {
		ci := ci
		sc := w.sys.Conns[ci]
		peer := sc.Peer
		peer.OnReply = func(r *Recvd) { w.onReply(ci, r) }
		g := rt.Go(rt.SiteSpawn, func() {
			rt.SetName(fmt.Sprintf("client%d", ci))
			rt.HarnessOnly()
			ver := "9P2000"
			if w.dotu != (ci > 0 && w.x.C.cfg("dotu_other") != 0) { // with dotu_other every connection but the first asks for the other dialect
				ver = "9P2000.u"
			}
			cm := uint32(w.x.C.cfg("cmsize"))
			if o := uint32(w.x.C.cfg("cmsize_other")); o != 0 && ci > 0 {
				cm = o
			}
			if r := peer.Call(&Msg{Type: Tversion, Tag: NOTAG, Msize: cm, Version: ver}); r == nil || r.M == nil || r.M.Type != Rversion {
				w.x.Violate("setup", "Tversion not answered with Rversion on conn %d", ci)
				return
			}
			if r := peer.Call(&Msg{Type: Tattach, Tag: 900, Fid: 0, Afid: NOFID, Uname: "u1", Aname: "", Nuname: 1}); r == nil || r.M == nil || r.M.Type != Rattach {
				w.x.Violate("setup", "Tattach not answered with Rattach on conn %d", ci)
				return
			}
			// one fid per request, bound by pipelined walks (and opens where the protocol needs them)
			var batch []*Msg
			tag := uint16(1000)
			for _, q := range w.byConn[ci] {
				if q.IsFlush {
					continue
				}
				batch = append(batch, &Msg{Type: Twalk, Tag: tag, Fid: 0, Newfid: q.Fid, Wname: []string{fmt.Sprintf("f%d", q.Idx)}})
				tag++
			}
			ss := peer.Write(batch...)
			rt.YieldUntil(rt.SiteActor, func() bool { return allReplied(ss) || peer.EOF })
			batch = nil
			for _, q := range w.byConn[ci] {
				if !q.IsFlush && (q.Type == Tread || q.Type == Twrite) {
					batch = append(batch, &Msg{Type: Topen, Tag: tag, Fid: q.Fid, Mode: 2})
					tag++
				}
			}
			if len(batch) > 0 {
				ss2 := peer.Write(batch...)
				rt.YieldUntil(rt.SiteActor, func() bool { return allReplied(ss2) || peer.EOF })
				ss = append(ss, ss2...)
			}
			for _, s := range ss {
				if s.Reply == nil || s.Reply.M == nil || s.Reply.M.Type == Rerror {
					w.x.Violate("setup", "setup %s failed on conn %d: %v", TypeName(s.M.Type), ci, s.Reply)
					return
				}
			}
			w.setupOK[ci] = true
			w.x.S.Note(fmt.Sprintf("conn %d setup done", ci))
			// pipelined phase
			var seg []*Msg
			var segq []*wReq
			flush := func() {
				if len(seg) == 0 {
					return
				}
				ss := peer.Write(seg...)
				for i, s := range ss {
					segq[i].Sent = s
				}
				if len(seg) > 1 {
					w.x.Probe("multi-message-segment")
				}
				seg, segq = nil, nil
			}
			for _, q := range w.byConn[ci] {
				if peer.EOF {
					break
				}
				if !q.Shared && !slotFree(q) {
					flush()
					q := q
					rt.YieldUntil(rt.SiteActor, func() bool { return slotFree(q) || peer.EOF })
					w.x.Probe("tag-reused-after-reply")
				}
				if q.IsFlush {
					t := q.Target
					switch q.Placement {
					case fpNoWait:
						flush()
					case fpWhenHeld:
						flush()
						rt.YieldUntil(rt.SiteActor, func() bool { return t == nil || w.heldOrDone(t) || peer.EOF })
					case fpAfterDone:
						flush()
						rt.YieldUntil(rt.SiteActor, func() bool { return t == nil || (t.Sent != nil && t.Sent.Reply != nil) || t.Cancelled || peer.EOF })
					}
				}
				seg = append(seg, w.build(q))
				segq = append(segq, q)
				if q.SegBreak {
					flush()
				}
			}
			flush()
		})
		w.actors = append(w.actors, g)
	}
}

func allReplied(ss []*Sent) bool {
	for _, s := range ss {
		if s.Reply == nil {
			return false
		}
	}
	return true
}

func (w *SrvWork) invOf(q *wReq) *Inv {
	key := q.key
	for _, i := range w.fs.Log {
		if i.Key == key && i.Req != nil && i.Tag == q.Tag {
			return i
		}
	}
	return nil
}

func (w *SrvWork) invsOf(q *wReq) []*Inv {
	var is []*Inv
	for _, i := range w.fs.ByKey(q.key) {
		if i.Tag == q.Tag {
			is = append(is, i)
		}
	}
	return is
}

func (w *SrvWork) heldOrDone(q *wReq) bool {
	if q.Sent == nil {
		return false
	}
	if q.Sent.Reply != nil || q.Cancelled {
		return true
	}
	if i := w.invOf(q); i != nil && (i.Held || len(i.AnsSteps) > 0 || i.Plan == nil || i.Plan.Mode == PNever) {
		return true
	}
	return false
}

// onReply runs in the peer's reader goroutine for every decoded frame.
func (w *SrvWork) onReply(ci int, r *Recvd) {
	if r.M == nil {
		return
	}
	if r.For == nil {
		for _, q := range w.byConn[ci] {
			if q.Cancelled && q.Tag == r.M.Tag && !q.IsFlush && (r.M.Type == q.Type+1 || r.M.Type == Rerror) {
				w.x.Violate("f2-reply-after-rflush", "conn %d: %s with tag %d arrived after the Rflush that answered the flush of %v (Rflush was frame %d, this is frame %d)",
					ci, TypeName(r.M.Type), r.M.Tag, q, q.CancelledBy.Idx, r.Idx)
				return
			}
		}
		w.x.Violate("r1-no-outstanding", "conn %d: %s with tag %d arrived but no request with that tag is outstanding (frame %d of the reply stream)", ci, TypeName(r.M.Type), r.M.Tag, r.Idx)
		return
	}
	// a late reply to a request already cancelled by an Rflush may be mis-attributed
	// to the request that reused the tag: recognise it by its (unique) content
	for _, q := range w.byConn[ci] {
		if !q.Cancelled || q.IsFlush || q.Tag != r.M.Tag || q.Sent == r.For {
			continue
		}
		if r.M.Type == Rclunk || r.M.Type == Rremove || r.M.Type == Rwstat {
			continue // replies without a body cannot be told apart by content
		}
		// ambiguous if the request that now holds the tag expects exactly these bytes too (Rwrite carries only a count)
		ambiguous := false
		for _, q2 := range w.byConn[ci] {
			if q2.Sent != r.For || q2.IsFlush {
				continue
			}
			for _, inv2 := range w.invsOf(q2) {
				if inv2.Expect != nil {
					e2 := *inv2.Expect
					e2.Tag = q2.Tag
					if bytes.Equal(Encode(&e2, w.sys.Conns[ci].Peer.Dotu), r.Raw) {
						ambiguous = true
					}
				}
			}
		}
		if ambiguous {
			continue
		}
		for _, inv := range w.invsOf(q) {
			if inv.Expect == nil {
				continue
			}
			e := *inv.Expect
			e.Tag = q.Tag
			if bytes.Equal(Encode(&e, w.sys.Conns[ci].Peer.Dotu), r.Raw) {
				w.x.Violate("f2-reply-after-rflush", "conn %d: the reply %s to %v arrived after the Rflush (frame %d) that answered its flush; this is frame %d, and tag %d has been reused meanwhile",
					ci, r.M, q, q.CancelledBy.Idx, r.Idx, q.Tag)
				// give the tag's queue slot back to the request that reused it
				peer := w.sys.Conns[ci].Peer
				s := r.For
				s.Reply = nil
				r.For = nil
				peer.putBackOut(s)
				return
			}
		}
	}
	if r.M.Type == Rflush && r.For.M.Type == Tflush {
		// the flushed request, if still unanswered, is cancelled: its tag is free again
		for _, q := range w.byConn[ci] {
			if q.IsFlush && q.Sent == r.For && q.Target != nil && q.Target.Sent != nil && q.Target.Sent.Reply == nil && !q.Target.Cancelled {
				t := q.Target
				t.Cancelled = true
				t.CancelledBy = r
				w.sys.Conns[ci].Peer.dropOut(t.Sent)
				w.x.Probe("request-cancelled-by-flush")
			}
		}
	}
}

// RunPhases runs to quiescence, then releases held implementation calls one
// at a time in scheduler-chosen order, running to quiescence after each.
func (w *SrvWork) RunPhases() bool {
	first := true
	for {
		if !w.x.Run() {
			return false
		}
		if first && w.FirstQuiescence != nil {
			w.FirstQuiescence()
		}
		if !first && w.AfterEachRelease != nil {
			w.AfterEachRelease()
		}
		first = false
		held := w.fs.HeldInvs()
		if len(held) == 0 {
			return true
		}
		if len(held) >= 3 {
			w.x.Probe("3+-held-simultaneously")
		}
		k := w.x.S.Choose(len(held))
		if k != 0 {
			w.x.Probe("release-order-differs-from-arrival")
		}
		held[k].Released = true
		w.ReleaseOrder = append(w.ReleaseOrder, held[k].Seq)
		w.x.S.Note(fmt.Sprintf("release inv %d", held[k].Seq))
	}
}

// CheckReplies applies the reply rules r3..r5 (+ invocation count) to every
// request of the pipelined phase. Requests for which skip returns true are
// left to the property's own rules.
func (w *SrvWork) CheckReplies(skip func(q *wReq) bool) {
	for ci, sc := range w.sys.Conns {
		if ci >= len(w.setupOK) {
			continue
		}
		if !w.setupOK[ci] {
			if !sc.Peer.EOF && !sc.Clnt.Closed() && (skip == nil || len(w.byConn[ci]) == 0 || !skip(w.byConn[ci][0])) {
				w.x.Violate("r3-no-reply", "conn %d: the setup phase (Tversion, Tattach, walks, opens) never completed: a request got no reply", ci)
			}
			continue
		}
		dotu := sc.Peer.Dotu
		for _, q := range w.byConn[ci] {
			if skip != nil && skip(q) {
				continue
			}
			if q.Sent == nil {
				w.x.Violate("r0-not-sent", "request %v was never written (actor stuck?)", q)
				continue
			}
			rep := q.Sent.Reply
			if rep == nil {
				w.x.Violate("r3-no-reply", "conn %d: %v got no reply by final quiescence", ci, q)
				continue
			}
			if rep.M == nil {
				continue
			}
			if rep.M.Type != q.Type+1 && rep.M.Type != Rerror {
				w.x.Violate("r4-type", "conn %d: %v answered with %s", ci, q, TypeName(rep.M.Type))
				continue
			}
			if q.IsFlush {
				continue
			}
			invs := w.invsOf(q)
			if len(invs) != 1 {
				w.x.Violate("r7-invocations", "conn %d: %v reached the implementation %d times (reply %s)", ci, q, len(invs), rep.M)
				continue
			}
			exp := invs[0].Expect
			if exp == nil {
				w.x.Violate("r5-content", "conn %d: %v has a reply (%s) but the implementation never answered it", ci, q, rep.M)
				continue
			}
			e := *exp
			e.Tag = q.Tag
			want := Encode(&e, dotu)
			if !bytes.Equal(want, rep.Raw) {
				rule := "r5-content"
				if invs[0].Expect2 != nil {
					e2 := *invs[0].Expect2
					e2.Tag = q.Tag
					if bytes.Equal(Encode(&e2, dotu), rep.Raw) {
						rule = "r5-second-answer-sent"
					}
				}
				w.x.Violate(rule, "conn %d: %v: reply differs from what the implementation produced first: got %s (% x) want %s (% x)", ci, q, rep.M, head(rep.Raw, 48), &e, head(want, 48))
			}
		}
	}
}

func (w *SrvWork) dump() {
	if !*fDump {
		return
	}
	for ci, sc := range w.sys.Conns {
		dumpf("--- conn %d sent:", ci)
		for _, s := range sc.Peer.Sent {
			rep := "no reply"
			if s.Reply != nil {
				rep = fmt.Sprintf("reply frame %d", s.Reply.Idx)
			}
			dumpf("  step %d [%d..%d] %s  -> %s", s.Step, s.Start, s.End, s.M, rep)
		}
		dumpf("--- conn %d received:", ci)
		for _, r := range sc.Peer.Recv {
			f := "for nobody"
			if r.For != nil {
				f = fmt.Sprintf("for sent #%d", r.For.Idx)
			}
			dumpf("  frame %d read@%d written@%d %v %s", r.Idx, r.Step, r.WStep, r.M, f)
		}
	}
	dumpf("--- invocation log:")
	for _, i := range w.fs.Log {
		dumpf("  seq %d step %d %s conn %d tag %d fid %d %s held=%v answered@%v", i.Seq, i.Step, i.Op, i.Conn, i.Tag, i.Fid, i.Args, i.Held, i.AnsSteps)
	}
	for _, g := range w.x.S.Goroutines() {
		if !g.Done() {
			dumpf("  goroutine %s %s: %s", g.ID, g.Name, w.x.S.Describe(g))
		}
	}
}

func (w *SrvWork) countProbes() {
	w.dump()
	x := w.x
	maxOut := 0
	for _, sc := range w.sys.Conns {
		x.FaultN("seg-split", sc.Srv.In.Splits+sc.Clnt.In.Splits)
		x.FaultN("coalesce", sc.Srv.In.Coalesced+sc.Clnt.In.Coalesced)
		if sc.Srv.Out.Cap > 0 {
			x.Fault("backpressure-cap")
		}
		_ = maxOut
	}
	// completion order vs arrival order
	last := -1
	for _, i := range w.fs.Log {
		if i.Req == nil || len(i.AnsSteps) == 0 {
			continue
		}
		_ = last
	}
}
