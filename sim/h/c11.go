package h

// C11 — a disconnect releases everything the connection held (DESIGN.md §4 C11).

import (
	"fmt"

	"github.com/rminnich/go9p"
	"github.com/rminnich/go9p/vsim/rt"
)

func init() { register(&Property{ID: "C11", Gen: c11Gen, Exec: c11Exec}) }

const (
	cutEOF = iota
	cutReset
	cutMidFrame
	nCutModes
)

func c11Gen(seed uint64, run int, tier string) *Case {
	r := NewRand(seed)
	c := &Case{Cfg: map[string]int64{}}
	genSrvCfg(r, c, tier)
	c.Cfg["nconn"] = 2 // conn 0: victim, conn 1: bystander
	c.Cfg["cutmode"] = int64(r.Intn(nCutModes))
	c.Cfg["cutwhen"] = int64(r.Pick(0, 1, 1, 2)) // 0: at a drawn step, 1: at first quiescence (requests parked), 2: after everything was answered
	c.Cfg["cutstep"] = int64(r.Intn(700))
	c.Stratum = []string{"cut-at-step", "cut-with-requests-parked", "cut-when-idle"}[c.Cfg["cutwhen"]]
	maxHeld := 4
	maxData := effMsize(c) - IOHDRSZ
	for ci := 0; ci < 2; ci++ {
		n := r.Range(1, 10)
		held := 0
		for i := 0; i < n; i++ {
			mode := PNow
			if ci == 0 {
				switch r.Intn(6) {
				case 0, 1:
					if held < maxHeld {
						mode = r.Pick(PHold, PHold, PAsync)
						held++
					}
				case 2:
					mode = PAfter
				}
			}
			ti := r.Intn(nWTypes)
			cnt := r.Pick(0, 1, 13, 100, maxData)
			if ti == wtWalk {
				cnt = r.Intn(4)
			}
			c.Ops = append(c.Ops, reqOp(ci, ti, i, mode, r.Pct(15), cnt, r.Pct(40), 0))
		}
	}
	return c
}

func c11Exec(x *Ctx) {
	w := NewSrvWork(x, false)
	victim := w.sys.Conns[0]
	cutDone := false
	cutStep := -1
	doCut := func() {
		if cutDone {
			return
		}
		cutDone = true
		cutStep = rt.Step()
		x.S.Note("cut victim connection")
		switch int(x.C.cfg("cutmode")) {
		case cutEOF:
			x.Fault("cut-eof")
			victim.Clnt.Close()
		case cutReset:
			x.Fault("cut-reset")
			victim.Clnt.Reset()
		case cutMidFrame:
			x.Fault("cut-midframe")
			b := Encode(&Msg{Type: Tstat, Tag: 4000, Fid: 0}, victim.Peer.Dotu)
			victim.Clnt.Write(b[:1+len(b)/2])
			victim.Clnt.Close()
		}
		if len(w.fs.HeldInvs()) > 0 {
			x.Probe("cut-with-requests-parked")
		}
	}
	when := int(x.C.cfg("cutwhen"))
	if when == 0 {
		rt.Go(rt.SiteSpawn, func() {
			rt.SetName("cutter")
			rt.YieldUntil(rt.SiteActor, func() bool { return w.setupOK[0] })
			base := rt.Step()
			k := int(x.C.cfg("cutstep"))
			rt.YieldUntil(rt.SiteActor, func() bool { return x.S.Steps >= base+k })
			doCut()
		})
	}
	w.FirstQuiescence = func() {
		if when == 1 && !cutDone {
			g := rt.Go(rt.SiteSpawn, func() { rt.SetName("cutter"); doCut() })
			_ = g
			x.Run()
		}
	}
	w.Start()
	if !w.RunPhases() {
		return
	}
	if !cutDone {
		rt.Go(rt.SiteSpawn, func() { rt.SetName("cutter"); doCut() })
		if !w.RunPhases() {
			return
		}
	}
	// the bystander keeps working after the victim is gone
	by := w.sys.Conns[1]
	var after *Recvd
	if w.setupOK[1] {
		rt.Go(rt.SiteSpawn, func() {
			rt.SetName("bystander-after")
			after = by.Peer.Call(&Msg{Type: Tstat, Tag: 3500, Fid: 0})
		})
		if !x.Run() {
			return
		}
		if after == nil || after.M == nil || after.M.Type != Rstat {
			x.Violate("d4-bystander", "the bystander connection is not served after the victim disconnected: Tstat answered %v", after)
		}
	}
	// a fresh connection is served too
	fresh := w.sys.AddConn(0, int(x.C.cfg("seg")))
	var fr *Recvd
	rt.Go(rt.SiteSpawn, func() {
		rt.SetName("fresh-client")
		fr = fresh.Peer.Call(&Msg{Type: Tversion, Tag: NOTAG, Msize: 8192, Version: "9P2000"})
	})
	if !x.Run() {
		return
	}
	if fr == nil || fr.M == nil || fr.M.Type != Rversion {
		x.Violate("d4-later-conn", "a connection opened after the disconnect is not served")
	}

	// ---- oracle ----
	nclosed := 0
	for _, i := range w.fs.Log {
		if i.Op == "connclosed" {
			if i.Conn == 0 {
				nclosed++
			} else {
				x.Violate("d1-wrong-conn-closed", "ConnClosed reported for connection %d, which never disconnected", i.Conn)
			}
		}
	}
	if nclosed != 1 {
		x.Violate("d1-connclosed", "ConnClosed reported %d times for the disconnected connection", nclosed)
	}
	// every fid of the victim ever shown to the implementation is destroyed exactly once
	shown := map[*go9p.SrvFid]uint32{}
	var order []*go9p.SrvFid
	note := func(p *go9p.SrvFid, no uint32) {
		if p == nil {
			return
		}
		if _, ok := shown[p]; !ok {
			shown[p] = no
			order = append(order, p)
		}
	}
	destroyed := map[*go9p.SrvFid]int{}
	for _, i := range w.fs.Log {
		if i.Op == "fiddestroy" {
			destroyed[i.FidP]++
			if i.Conn == 1 && cutStep >= 0 {
				// the bystander destroys only what it clunked/removed itself
				continue
			}
			continue
		}
		if i.Conn != 0 || i.Req == nil {
			continue
		}
		note(i.FidP, i.Fid)
		if i.Op == "walk" {
			note(i.NewfidP, i.Newfid)
		}
	}
	for _, p := range order {
		switch n := destroyed[p]; {
		case n == 0:
			x.Violate("d2-fid-not-destroyed", "fid %d of the disconnected connection was shown to the implementation but its destruction was never reported", shown[p])
		case n > 1:
			x.Violate("d2-fid-destroyed-twice", "fid %d of the disconnected connection was reported destroyed %d times", shown[p], n)
		}
	}
	for p, n := range destroyed {
		if n > 1 {
			if _, ok := shown[p]; !ok {
				x.Violate("d2-fid-destroyed-twice", "a fid (connection %d) was reported destroyed %d times", w.fs.connIdx(p.Fconn), n)
			}
		}
	}
	// bystander fids must not be destroyed by the victim's disconnect: its requests must all be answered correctly
	w.CheckReplies(func(q *wReq) bool { return q.Conn == 0 })
	// the victim's goroutines are gone
	for _, g := range x.S.Goroutines() {
		if g.DescendsFrom(victim.Host) && !g.Done() {
			x.Violate("d3-goroutine-left", "goroutine %s serving the disconnected connection never ended: %s", g.ID, x.S.Describe(g))
		}
	}
	w.countProbes()
	_ = fmt.Sprint
}
