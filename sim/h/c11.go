package h

// C11 — a disconnect releases everything the connection held (DESIGN.md §4 C11).

import (
	"fmt"
	"os"
	"path/filepath"
	"strings"

	"github.com/rminnich/go9p"
	"github.com/rminnich/go9p/vsim/rt"
)

func init() { register(&Property{ID: "C11", Gen: c11Gen, Exec: c11Exec}) }

const (
	cutEOF = iota
	cutReset
	cutMidFrame
	cutHalfClose // the client has stopped reading (the server's writer is blocked), then ends only its own sending direction
	nCutModes
)

func c11Gen(seed uint64, run int, tier string) *Case {
	r := NewRand(seed)
	c := &Case{Cfg: map[string]int64{}}
	genSrvCfg(r, c, tier)
	c.Cfg["nconn"] = 2                  // conn 0: victim, conn 1: bystander
	c.Cfg["autorel"] = int64(r.Intn(2)) // parked implementation calls may wake up in the middle of activity
	c.Cfg["cutmode"] = int64(r.Intn(nCutModes))
	c.Cfg["cutwhen"] = int64(r.Pick(0, 1, 1, 2)) // 0: at a drawn step, 1: at first quiescence (requests parked), 2: after everything was answered
	c.Cfg["cutstep"] = int64(r.Intn(700))
	c.Stratum = []string{"cut-at-step", "cut-with-requests-parked", "cut-when-idle"}[c.Cfg["cutwhen"]]
	if run%12 == 10 {
		c.Stratum = "tversion-then-disconnect"
		c.Cfg["midversion"] = 1
		c.Cfg["nreq"] = int64(r.Pick(1, 2, 4, 8))
		c.Cfg["holdpct"] = int64(r.Pick(0, 30, 70))
		c.Cfg["sameseg"] = int64(r.Intn(2))
		return c
	}
	if run%4 == 3 {
		// the Unix file server: every file it opened for the connection must be closed again
		c.Stratum = "ufs-open-files"
		c.Cfg["ufs"] = 1
		c.Cfg["cutwhen"] = 0
		c.Cfg["nfiles"] = int64(r.Range(1, 8))
		return c
	}
	if run%4 == 1 {
		c.Cfg["flushop"] = 1
		c.Stratum += "+cancelled-requests"
	}
	maxHeld := 4
	maxData := effMsize(c) - IOHDRSZ
	for ci := 0; ci < 2; ci++ {
		n := r.Range(1, 10)
		held := 0
		for i := 0; i < n; i++ {
			mode := PNow
			if ci == 0 {
				switch r.Intn(6) {
				case 0, 1:
					if held < maxHeld {
						mode = r.Pick(PHold, PHold, PAsync)
						held++
					}
				case 2:
					mode = PAfter
				}
			}
			ti := r.Intn(nWTypes)
			cnt := r.Pick(0, 1, 13, 100, maxData)
			if ti == wtWalk {
				cnt = r.Intn(4)
			}
			if ci == 0 && (mode == PHold || mode == PAsync) && r.Pct(25) {
				// a second request under the same tag waits behind the parked one when the connection goes
				c.Ops = append(c.Ops, reqOp(ci, ti, i, mode, r.Pct(15), cnt, r.Pct(40), 0))
				c.Ops = append(c.Ops, sharedReqOp(ci, r.Intn(nWTypes), i, PNow, false, r.Pick(0, 1, 3), r.Pct(40), 0))
				if r.Pct(40) {
					// a third one behind them, and a Tflush of the tag: it cancels the youngest, the others are still there
					c.Ops = append(c.Ops, sharedReqOp(ci, r.Intn(nWTypes), i, PNow, false, r.Pick(0, 1, 3), r.Pct(40), 0))
					c.Ops = append(c.Ops, flushOp(ci, 700+i, i, r.Pick(fpWhenHeld, fpNoWait), r.Pct(50)))
				}
				continue
			}
			if ci == 0 && (mode == PHold || mode == PAsync) && r.Pct(20) {
				// two or three Tflush of the parked request are waiting for it (the implementation does not cancel
				// it) when the connection goes
				c.Ops = append(c.Ops, reqOp(ci, ti, i, mode, r.Pct(15), cnt, r.Pct(40), 0))
				for k := r.Range(2, 3); k > 0; k-- {
					c.Ops = append(c.Ops, flushOp(ci, 400+100*k+i, i, r.Pick(fpWhenHeld, fpNoWait), r.Pct(50)))
				}
				continue
			}
			if ci == 0 && c.Cfg["flushop"] != 0 && (mode == PHold || mode == PAsync) && r.Pct(60) {
				// cancelled through the implementation's FlushOp while it is parked, before the connection goes
				c.Ops = append(c.Ops, reqOp(ci, ti, i, mode, r.Pct(15), cnt, r.Pct(40), 1))
				c.Ops = append(c.Ops, flushOp(ci, 300+i, i, fpWhenHeld, r.Pct(50)))
				continue
			}
			c.Ops = append(c.Ops, reqOp(ci, ti, i, mode, r.Pct(15), cnt, r.Pct(40), 0))
		}
	}
	return c
}

// c11Ufs: a raw client opens, creates and lists files on the real Ufs and is cut at a drawn step,
// possibly with requests in flight; afterwards no descriptor of the process may point into the tree.
func c11Ufs(x *Ctx) {
	c := x.C
	u := NewUfsSys(x, 8192, true, int(c.cfg("maxpend")), 0)
	if u == nil {
		return
	}
	defer u.Cleanup()
	n := int(c.cfg("nfiles"))
	os.MkdirAll(filepath.Join(u.Root, "d"), 0o755)
	for i := 0; i < n; i++ {
		os.WriteFile(filepath.Join(u.Root, fmt.Sprintf("f%d", i)), pattern(200*i, 1, 1, 1), 0o644)
	}
	victim := u.Raw(int(c.cfg("seg")))
	by := u.Raw(int(c.cfg("seg")))
	cutStep := int(c.cfg("cutstep"))
	byOK := false
	rt.Go(rt.SiteSpawn, func() {
		rt.SetName("bystander")
		if rawAttach(by.Peer, 8192, true, "") {
			if r := by.Peer.Call(&Msg{Type: Twalk, Tag: 2, Fid: 0, Newfid: 1, Wname: []string{"f0"}}); r != nil && r.M != nil && r.M.Type == Rwalk {
				r2 := by.Peer.Call(&Msg{Type: Topen, Tag: 3, Fid: 1, Mode: 0})
				byOK = r2 != nil && r2.M != nil && r2.M.Type == Ropen
			}
		}
	})
	rt.Go(rt.SiteSpawn, func() {
		rt.SetName("victim")
		p := victim.Peer
		if !rawAttach(p, 8192, c.cfg("dotu") != 0, "") {
			return
		}
		// stage by stage (requests on one fid are issued one after the other, different fids are pipelined):
		// walk to every file and to the directory, open them, read them, create a few files; never clunk
		stage := func(ms []*Msg) bool {
			for i := 0; i < len(ms); i += 4 {
				if p.EOF {
					return false
				}
				ss := p.Write(ms[i:minInt(len(ms), i+4)]...)
				if i+4 >= len(ms) {
					rt.YieldUntil(rt.SiteActor, func() bool { return allReplied(ss) || p.EOF || victim.Clnt.Closed() })
				}
			}
			rt.YieldUntil(rt.SiteActor, func() bool { return p.Outstanding() == 0 || p.EOF || victim.Clnt.Closed() })
			return !p.EOF && !victim.Clnt.Closed()
		}
		tag := uint16(10)
		next := func() uint16 { tag++; return tag }
		var walks, opens, reads, creates []*Msg
		for i := 0; i < n; i++ {
			walks = append(walks, &Msg{Type: Twalk, Tag: next(), Fid: 0, Newfid: uint32(10 + i), Wname: []string{fmt.Sprintf("f%d", i)}})
			opens = append(opens, &Msg{Type: Topen, Tag: next(), Fid: uint32(10 + i), Mode: uint8(i % 3)})
			reads = append(reads, &Msg{Type: Tread, Tag: next(), Fid: uint32(10 + i), Offset: 0, Count: 100})
		}
		walks = append(walks, &Msg{Type: Twalk, Tag: next(), Fid: 0, Newfid: 90, Wname: []string{"d"}})
		opens = append(opens, &Msg{Type: Topen, Tag: next(), Fid: 90, Mode: 0})
		reads = append(reads, &Msg{Type: Tread, Tag: next(), Fid: 90, Offset: 0, Count: 4000})
		for i := 0; i < 3; i++ {
			walks = append(walks, &Msg{Type: Twalk, Tag: next(), Fid: 0, Newfid: uint32(100 + i), Wname: []string{"d"}})
			creates = append(creates, &Msg{Type: Tcreate, Tag: next(), Fid: uint32(100 + i), Name: fmt.Sprintf("new%d", i), Perm: 0o644, Mode: 1})
		}
		// hard links that fail (the name exists; the source is a directory) and name open fids as their source:
		// the source fids are released at the disconnect like the others
		if c.cfg("dotu") != 0 && n > 0 {
			walks = append(walks, &Msg{Type: Twalk, Tag: next(), Fid: 0, Newfid: 110, Wname: []string{"d"}}, &Msg{Type: Twalk, Tag: next(), Fid: 0, Newfid: 111, Wname: nil})
			creates = append(creates, &Msg{Type: Tcreate, Tag: next(), Fid: 110, Name: "new0", Perm: 0x01000000 | 0o644, Mode: 0, Ext: "10"},
				&Msg{Type: Tcreate, Tag: next(), Fid: 111, Name: "lnk-to-dir", Perm: 0x01000000 | 0o644, Mode: 0, Ext: "90"})
		}
		// the directory is then listed again from its start, twice, through the same fid
		again := func() []*Msg { return []*Msg{{Type: Tread, Tag: next(), Fid: 90, Offset: 0, Count: 4000}} }
		// and a Topen with a Tversion right behind it: the open may be cancelled while Ufs is in the middle of it
		late := func() []*Msg {
			return []*Msg{{Type: Twalk, Tag: next(), Fid: 0, Newfid: 95, Wname: []string{"f0"}}}
		}
		cancelled := func() []*Msg {
			return []*Msg{{Type: Topen, Tag: next(), Fid: 95, Mode: 2}, {Type: Tversion, Tag: NOTAG, Msize: 8192, Version: []string{"9P2000", "9P2000.u"}[int(c.cfg("dotu"))%2]}}
		}
		_ = stage(walks) && stage(opens) && stage(append(reads, creates...)) && stage(again()) && stage(again()) && stage(late()) && stage(cancelled())
	})
	quiet := false
	rt.Go(rt.SiteSpawn, func() {
		rt.SetName("cutter")
		rt.YieldUntil(rt.SiteActor, func() bool { return x.S.Steps >= 150+cutStep || quiet })
		switch int(c.cfg("cutmode")) {
		case cutReset:
			x.Fault("cut-reset")
			victim.Clnt.Reset()
		default:
			x.Fault("cut-eof")
			victim.Clnt.Close()
		}
		if len(victim.Peer.Sent) > len(victim.Peer.Recv) {
			x.Probe("cut-with-requests-in-flight")
		}
	})
	if !x.Run() {
		return
	}
	quiet = true // everything was answered before the drawn step: cut now
	if !x.Run() {
		return
	}
	u.CountFaults()
	// every descriptor Ufs opened for the victim must be closed; the bystander's one file stays open
	open := 0
	var names []string
	if es, err := os.ReadDir("/proc/self/fd"); err == nil {
		for _, e := range es {
			if t, err := os.Readlink("/proc/self/fd/" + e.Name()); err == nil && strings.HasPrefix(t, u.Base) {
				open++
				names = append(names, strings.TrimPrefix(t, u.Root))
			}
		}
	}
	want := 0
	if byOK {
		want = 1
	}
	if *fDump {
		for _, sn := range victim.Peer.Sent {
			rep := "no reply"
			if sn.Reply != nil {
				rep = sn.Reply.M.String()
			}
			dumpf("victim: step %d %s -> %s", sn.Step, sn.M, rep)
		}
	}
	if open > want {
		x.Violate("d5-fd-left-open", "after the client disconnected %d descriptors of the server still point into the exported tree (the bystander holds %d): %v", open, want, names)
	}
	for _, g := range x.S.Goroutines() {
		if g.DescendsFrom(victim.Host) && !g.Done() && g.Name != "implementation-event-loop" { // (the implementation's own event loop serves every connection and goes on)
			x.Violate("d3-goroutine-left", "goroutine %s serving the disconnected connection never ended: %s", g.ID, x.S.Describe(g))
		}
	}
	if !byOK {
		x.Violate("d4-bystander", "the bystander connection could not open a file while the victim was being cut")
	} else if r := by.Peer; r.EOF {
		x.Violate("d4-bystander", "the bystander connection was dropped")
	}
}

func c11Exec(x *Ctx) {
	if x.C.cfg("midversion") != 0 {
		c11Version(x)
		return
	}
	if x.C.cfg("ufs") != 0 {
		c11Ufs(x)
		return
	}
	w := NewSrvWork(x, x.C.cfg("flushop") != 0)
	victim := w.sys.Conns[0]
	cutDone := false
	cutStep := -1
	doCut := func() {
		if cutDone {
			return
		}
		cutDone = true
		cutStep = rt.Step()
		x.S.Note("cut victim connection")
		switch int(x.C.cfg("cutmode")) {
		case cutEOF:
			x.Fault("cut-eof")
			victim.Clnt.Close()
		case cutReset:
			x.Fault("cut-reset")
			victim.Clnt.Reset()
		case cutHalfClose:
			x.Fault("cut-half-close")
			victim.Clnt.CloseWrite()
		case cutMidFrame:
			x.Fault("cut-midframe")
			b := Encode(&Msg{Type: Tstat, Tag: 4000, Fid: 0}, victim.Peer.Dotu)
			victim.Clnt.Write(b[:1+len(b)/2])
			victim.Clnt.Close()
		}
		if len(w.fs.HeldInvs()) > 0 {
			x.Probe("cut-with-requests-parked")
		}
	}
	if int(x.C.cfg("cutmode")) == cutHalfClose {
		// from the end of the set-up on the victim takes no replies, over a transport that holds 24 bytes
		victim.Srv.Out.Cap = 24
		rt.Go(rt.SiteSpawn, func() {
			rt.SetName("staller")
			rt.YieldUntil(rt.SiteActor, func() bool { return w.setupOK[0] })
			victim.Peer.StopReading = true
			x.Fault("stall")
		})
	}
	when := int(x.C.cfg("cutwhen"))
	if when == 0 {
		rt.Go(rt.SiteSpawn, func() {
			rt.SetName("cutter")
			rt.YieldUntil(rt.SiteActor, func() bool { return w.setupOK[0] })
			base := rt.Step()
			k := int(x.C.cfg("cutstep"))
			rt.YieldUntil(rt.SiteActor, func() bool { return x.S.Steps >= base+k })
			doCut()
		})
	}
	w.FirstQuiescence = func() {
		if when == 1 && !cutDone {
			g := rt.Go(rt.SiteSpawn, func() { rt.SetName("cutter"); doCut() })
			_ = g
			x.Run()
		}
	}
	w.Start()
	if !w.RunPhases() {
		return
	}
	if !cutDone {
		rt.Go(rt.SiteSpawn, func() { rt.SetName("cutter"); doCut() })
		if !w.RunPhases() {
			return
		}
	}
	// the bystander keeps working after the victim is gone
	by := w.sys.Conns[1]
	var after *Recvd
	if w.setupOK[1] {
		rt.Go(rt.SiteSpawn, func() {
			rt.SetName("bystander-after")
			after = by.Peer.Call(&Msg{Type: Tstat, Tag: 3500, Fid: 0})
		})
		if !x.Run() {
			return
		}
		if after == nil || after.M == nil || after.M.Type != Rstat {
			x.Violate("d4-bystander", "the bystander connection is not served after the victim disconnected: Tstat answered %v", after)
		}
	}
	// a fresh connection is served too
	fresh := w.sys.AddConn(0, int(x.C.cfg("seg")))
	var fr *Recvd
	rt.Go(rt.SiteSpawn, func() {
		rt.SetName("fresh-client")
		fr = fresh.Peer.Call(&Msg{Type: Tversion, Tag: NOTAG, Msize: 8192, Version: "9P2000"})
	})
	if !x.Run() {
		return
	}
	if fr == nil || fr.M == nil || fr.M.Type != Rversion {
		x.Violate("d4-later-conn", "a connection opened after the disconnect is not served")
	}

	// ---- oracle ----
	nclosed := 0
	for _, i := range w.fs.Log {
		if i.Op == "connclosed" {
			if i.Conn == 0 {
				nclosed++
			} else {
				x.Violate("d1-wrong-conn-closed", "ConnClosed reported for connection %d, which never disconnected", i.Conn)
			}
		}
	}
	if nclosed != 1 {
		x.Violate("d1-connclosed", "ConnClosed reported %d times for the disconnected connection", nclosed)
	}
	// every fid of the victim ever shown to the implementation is destroyed exactly once
	shown := map[*go9p.SrvFid]uint32{}
	var order []*go9p.SrvFid
	note := func(p *go9p.SrvFid, no uint32) {
		if p == nil {
			return
		}
		if _, ok := shown[p]; !ok {
			shown[p] = no
			order = append(order, p)
		}
	}
	destroyed := map[*go9p.SrvFid]int{}
	for _, i := range w.fs.Log {
		if i.Op == "fiddestroy" {
			destroyed[i.FidP]++
			if i.Conn == 1 && cutStep >= 0 {
				// the bystander destroys only what it clunked/removed itself
				continue
			}
			continue
		}
		if i.Conn != 0 || i.Req == nil {
			continue
		}
		note(i.FidP, i.Fid)
		if i.Op == "walk" {
			note(i.NewfidP, i.Newfid)
		}
	}
	for _, p := range order {
		switch n := destroyed[p]; {
		case n == 0:
			x.Violate("d2-fid-not-destroyed", "fid %d of the disconnected connection was shown to the implementation but its destruction was never reported", shown[p])
		case n > 1:
			x.Violate("d2-fid-destroyed-twice", "fid %d of the disconnected connection was reported destroyed %d times", shown[p], n)
		}
	}
	for p, n := range destroyed {
		if n > 1 {
			if _, ok := shown[p]; !ok {
				x.Violate("d2-fid-destroyed-twice", "a fid (connection %d) was reported destroyed %d times", w.fs.connIdx(p.Fconn), n)
			}
		}
	}
	// bystander fids must not be destroyed by the victim's disconnect: its requests must all be answered correctly
	w.CheckReplies(func(q *wReq) bool { return q.Conn == 0 })
	// the victim's goroutines are gone
	for _, g := range x.S.Goroutines() {
		if g.DescendsFrom(victim.Host) && !g.Done() && g.Name != "implementation-event-loop" { // (the implementation's own event loop serves every connection and goes on)
			x.Violate("d3-goroutine-left", "goroutine %s serving the disconnected connection never ended: %s", g.ID, x.S.Describe(g))
		}
	}
	w.countProbes()
	_ = fmt.Sprint
}

// c11Version: a Tversion arrives while requests of the victim are outstanding (not yet started, or parked in the
// implementation); then the victim disconnects. Everything it held is released all the same.
func c11Version(x *Ctx) {
	c := x.C
	ms := uint32(1024)
	fs := NewScriptFS(x)
	holdTag := make([]bool, 1<<16)
	fs.PlanFor = func(inv *Inv) *Plan {
		p := &Plan{NWqid: -1, NData: -1, QType: qDir}
		if holdTag[inv.Tag] {
			p.Mode = PHold
		}
		return p
	}
	withAuth := c.Seed%3 == 0 // the implementation has authentication, and the victim leaves with an authentication fid it never clunked
	sys := NewSrvSys(x, fs.OpsValue(withAuth, false), fs, ms, true, int(c.cfg("maxpend")), int(c.cfg("debug")))
	victim := sys.AddConn(0, int(c.cfg("seg")))
	by := sys.AddConn(0, int(c.cfg("seg")))
	r := NewRand(c.Seed ^ 0x11b)
	n := int(c.cfg("nreq"))
	setup, sentAll := false, false
	noread, waitQuiet, quiet := c.Seed%4 == 1, false, 0
	rt.Go(rt.SiteSpawn, func() {
		rt.SetName("victim")
		for _, sc := range []*SConn{victim, by} {
			p := sc.Peer
			if rr := p.Call(&Msg{Type: Tversion, Tag: NOTAG, Msize: ms, Version: "9P2000.u"}); rr == nil || rr.M == nil || rr.M.Type != Rversion {
				return
			}
			for _, m := range []*Msg{{Type: Tattach, Tag: 1, Fid: 0, Afid: NOFID, Uname: "u1", Nuname: 1}, {Type: Twalk, Tag: 2, Fid: 0, Newfid: 1, Wname: []string{"a"}}} {
				if rr := p.Call(m); rr == nil || rr.M == nil || rr.M.Type == Rerror {
					return
				}
			}
		}
		setup = true
		p := victim.Peer
		if withAuth {
			if rr := p.Call(&Msg{Type: Tauth, Tag: 4, Afid: 50, Uname: "u1", Nuname: 1}); rr != nil && rr.M != nil && rr.M.Type == Rauth {
				x.Probe("authentication-fid-left-at-the-disconnect")
			}
		}
		// first a walk to a new fid that the implementation keeps for a while, and a request that names the new
		// fid meanwhile (whatever its answer): the new fid is the connection's like any other
		holdTag[8] = true
		w8 := p.Write(&Msg{Type: Twalk, Tag: 8, Fid: 0, Newfid: 7, Wname: []string{"c"}})[0]
		rt.YieldUntil(rt.SiteActor, func() bool { return len(fs.HeldInvs()) > 0 || w8.Reply != nil || p.EOF })
		s9 := p.Write(&Msg{Type: Tstat, Tag: 9, Fid: 7})[0]
		if k := r.Intn(4); k < 2 {
			// a second request that would introduce the same new fid number while the first is still at work
			// (whatever its answer): every fid the implementation is shown for it is released at the disconnect
			m := &Msg{Type: Twalk, Tag: 6, Fid: 0, Newfid: 7, Wname: []string{"d"}}
			if k == 1 {
				m = &Msg{Type: Tattach, Tag: 6, Fid: 7, Afid: NOFID, Uname: "u1", Nuname: 1}
			}
			s6 := p.Write(m)[0]
			rt.YieldUntil(rt.SiteActor, func() bool { return s6.Reply != nil || w8.Reply != nil || p.EOF })
			x.Probe("same-new-fid-number-introduced-twice-in-flight")
		}
		rt.YieldUntil(rt.SiteActor, func() bool { return (w8.Reply != nil && s9.Reply != nil) || p.EOF })
		var ms1 []*Msg
		for i := 0; i < n; i++ {
			tag := uint16(10 + i)
			holdTag[tag] = r.Pct(int(c.cfg("holdpct")))
			switch r.Intn(3) {
			case 0:
				ms1 = append(ms1, &Msg{Type: Tstat, Tag: tag, Fid: uint32(r.Intn(2))})
			case 1:
				ms1 = append(ms1, &Msg{Type: Twalk, Tag: tag, Fid: 0, Newfid: uint32(20 + i), Wname: []string{"b"}})
			default:
				ms1 = append(ms1, &Msg{Type: Tread, Tag: tag, Fid: 1, Offset: 0, Count: 10})
			}
		}
		ms1 = append(ms1, &Msg{Type: Tversion, Tag: NOTAG, Msize: ms, Version: "9P2000.u"})
		if noread {
			// the victim stops taking replies off a transport that holds 24 bytes: the server's sender gets stuck in
			// the middle of a reply with the Tversion (handled on the reader) waiting behind it, and then the victim goes
			victim.Srv.Out.Cap = 24
			p.StopReading = true
			x.Fault("stall")
		}
		var vs *Sent
		if c.cfg("sameseg") != 0 {
			ss := p.Write(ms1...)
			vs = ss[len(ss)-1]
		} else {
			for _, m := range ms1 {
				vs = p.Write(m)[0]
			}
		}
		if noread {
			waitQuiet = true
			rt.YieldUntil(rt.SiteActor, func() bool { return quiet > 0 || p.EOF })
		} else {
			rt.YieldUntil(rt.SiteActor, func() bool { return vs.Reply != nil || p.EOF })
		}
		sentAll = true
		x.Fault("cut-eof")
		victim.Clnt.Close()
	})
	for {
		if !x.Run() {
			return
		}
		if waitQuiet && quiet == 0 {
			quiet++ // nothing moves any more: the victim may go
			continue
		}
		held := fs.HeldInvs()
		if len(held) == 0 {
			break
		}
		held[x.S.Choose(len(held))].Released = true
	}
	if !setup || !sentAll {
		if len(x.Res.Viol) == 0 {
			x.Violate("setup", "the session did not get as far as the disconnect")
		}
		return
	}
	x.Probe("tversion-with-requests-outstanding-before-the-disconnect")
	// the bystander is served
	var after *Recvd
	rt.Go(rt.SiteSpawn, func() {
		rt.SetName("bystander-after")
		after = by.Peer.Call(&Msg{Type: Tstat, Tag: 3500, Fid: 1})
	})
	if !x.Run() {
		return
	}
	if after == nil || after.M == nil || after.M.Type != Rstat {
		x.Violate("d4-bystander", "the bystander connection is not served after the victim disconnected: Tstat answered %v", after)
	}
	nclosed := 0
	shown := map[*go9p.SrvFid]uint32{}
	var order []*go9p.SrvFid
	destroyed := map[*go9p.SrvFid]int{}
	for _, i := range fs.Log {
		switch {
		case i.Op == "connclosed" && i.Conn == 0:
			nclosed++
		case i.Op == "connclosed":
			x.Violate("d1-wrong-conn-closed", "ConnClosed reported for connection %d, which never disconnected", i.Conn)
		case i.Op == "fiddestroy":
			destroyed[i.FidP]++
		case i.Conn == 0 && i.Op == "authinit" && i.FidP != nil:
			if _, ok := shown[i.FidP]; !ok {
				order = append(order, i.FidP)
			}
			shown[i.FidP] = 50
		case i.Conn == 0 && i.Req != nil:
			for _, fp := range []*go9p.SrvFid{i.FidP, i.NewfidP} {
				if fp != nil {
					if _, ok := shown[fp]; !ok {
						order = append(order, fp)
					}
					shown[fp] = i.Fid
				}
			}
		}
	}
	if nclosed != 1 {
		x.Violate("d1-connclosed", "ConnClosed reported %d times for the disconnected connection", nclosed)
	}
	for _, fp := range order {
		switch k := destroyed[fp]; {
		case k == 0:
			x.Violate("d2-fid-not-destroyed", "a fid of the disconnected connection (requests were outstanding at a Tversion before it left) was shown to the implementation but its destruction was never reported")
		case k > 1:
			x.Violate("d2-fid-destroyed-twice", "a fid of the disconnected connection was reported destroyed %d times", k)
		}
	}
	for _, g := range x.S.Goroutines() {
		if g.DescendsFrom(victim.Host) && !g.Done() && g.Name != "implementation-event-loop" { // (the implementation's own event loop serves every connection and goes on)
			x.Violate("d3-goroutine-left", "goroutine %s serving the disconnected connection never ended: %s", g.ID, x.S.Describe(g))
		}
	}
}
