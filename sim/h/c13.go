package h

// C13 — behaviour depends on the byte stream, not on how it is segmented
// (DESIGN.md §4 C13). Server side: a generated session is written by a raw
// peer and delivered to the server's receive loop under the run's
// segmentation; client side: the library client receives a scripted reply
// stream under the run's segmentation (the C10 machinery without faults).

import (
	"bytes"
	"fmt"

	"github.com/rminnich/go9p/vsim/rt"
)

func init() { register(&Property{ID: "C13", Gen: c13Gen, Exec: c13Exec}) }

func c13Gen(seed uint64, run int, tier string) *Case {
	r := NewRand(seed)
	c := &Case{Cfg: map[string]int64{}}
	genCommon(r, c.Cfg)
	c.Cfg["maxsteps"] = 4000000
	if run%4 == 3 {
		// client receive loop
		c.Stratum = "client"
		c.Cfg["side"] = 1
		ms := r.Pick(128, 160, 256, 512)
		c.Cfg["msize"], c.Cfg["smsize"] = int64(ms), int64(ms)
		c.Cfg["dotu"], c.Cfg["sdotu"] = int64(r.Intn(2)), int64(r.Intn(2))
		c.Cfg["fault"], c.Cfg["cap"], c.Cfg["holdpct"], c.Cfg["late"] = 0, 0, int64(r.Pick(0, 30)), 0
		if r.Pct(40) {
			// the reply stream ends in a frame the client must reject: however the stream is cut, the replies that
			// precede it are delivered and everything else fails (the oracle is C10's)
			c.Stratum = "client+garbage-at-the-end"
			c.Cfg["fault"], c.Cfg["fparam"], c.Cfg["fparam2"], c.Cfg["early"] = 5, int64(r.Intn(300)), int64(r.Intn(64)), 0
		}
		n := r.Range(1, 4)
		for i := 0; i < n; i++ {
			var ops []Op
			for k := r.Range(6, 25); k > 0; k-- {
				ops = append(ops, Op{K: "read", A: []int64{int64(len(ops)*4096 + r.Intn(90)), int64(r.Pick(0, 1, ms/3, ms-24, ms-24, ms))}})
				if r.Pct(25) {
					ops = append(ops, Op{K: "stat"})
				}
			}
			c.Ops = append(c.Ops, Op{K: "caller", Sub: ops})
		}
		return c
	}
	if run%8 == 5 {
		// the byte stream starts with the Tversion itself; requests whose wire format depends on the dialect follow
		// it without waiting
		c.Stratum = "server-handshake"
		c.Cfg["handshake"] = 1
		c.Cfg["msize"] = int64(r.Pick(256, 1024, 8192))
		c.Cfg["cmsize"] = int64(r.Pick(64, 100, 200, 256, 1024, 8192))
		c.Cfg["dotu"], c.Cfg["sdotu"] = int64(r.Intn(2)), 1
		c.Cfg["maxpend"] = int64(r.Pick(0, 2, 64))
		c.Cfg["delivery"] = int64(r.Pick(1, 2, 2))
		c.Cfg["split"] = int64(run / 8 * 7)
		c.Cfg["nmsg"] = int64(r.Pick(r.Range(1, 6), r.Range(1, 6), r.Range(30, 90))) // now and then far more bytes than 8 x the msize asked for
		return c
	}
	ms := r.Pick(96, 128, 256, 1024, 4096)
	c.Cfg["msize"], c.Cfg["cmsize"] = int64(ms), int64(ms)
	c.Cfg["dotu"], c.Cfg["sdotu"] = int64(r.Intn(2)), 1
	c.Cfg["maxpend"] = int64(r.Pick(0, 2, 64))
	c.Cfg["fifo"] = int64(r.Intn(2))
	c.Stratum = "server-concurrent"
	if c.Cfg["fifo"] == 1 {
		c.Stratum = "server-fifo"
	}
	c.Cfg["holdpct"] = int64(r.Pick(0, 10, 30))
	nmsg := r.Range(40, 120)
	if tier == "thorough" {
		nmsg = r.Range(40, 400)
	}
	// delivery: 0 policy-driven reads, 1 whole session in one write + policy, 2 exactly one split point (enumerated by run index)
	c.Cfg["delivery"] = int64(r.Pick(0, 1, 1, 2))
	c.Cfg["split"] = int64(run / 4 * 13)
	for i := 0; i < nmsg; i++ {
		switch r.Intn(10) {
		case 0, 1, 2:
			c.Ops = append(c.Ops, Op{K: "write", A: []int64{int64(r.Pick(0, 1, 2, ms/2, ms-24, ms-24))}})
		case 3, 4:
			c.Ops = append(c.Ops, Op{K: "read", A: []int64{int64(r.Pick(0, 1, 9, ms-24))}})
		case 5, 6:
			c.Ops = append(c.Ops, Op{K: "flush"})
		case 7:
			c.Ops = append(c.Ops, Op{K: "clunkbad"})
		case 8:
			c.Ops = append(c.Ops, Op{K: "wstat"}) // a frame of exactly msize bytes
		case 9:
			c.Ops = append(c.Ops, Op{K: []string{"wstat", "bigstat"}[r.Intn(2)]}) // bigstat: the implementation's answer does not fit msize
		}
	}
	c.Cfg["smsize"] = int64(r.Pick(ms, ms, 16384)) // the server may be willing to go higher than the client asks
	return c
}

func c13Exec(x *Ctx) {
	if x.C.cfg("side") == 1 {
		c10Exec(x)
		return
	}
	if x.C.cfg("handshake") != 0 {
		c13Handshake(x)
		return
	}
	c := x.C
	ms := uint32(c.cfg("msize"))
	fs := NewScriptFS(x)
	holdpct := int(c.cfg("holdpct"))
	fs.PlanFor = func(inv *Inv) *Plan {
		p := &Plan{NWqid: -1, NData: -1}
		if inv.Op == "attach" {
			p.QType = 0x80
		}
		if (inv.Op == "write" || inv.Op == "read") && holdpct > 0 && rt.Choose(100) < holdpct {
			p.Mode = PHold
		}
		if inv.Op == "stat" {
			p.StatNameLen = int(ms) // an Rstat larger than the negotiated msize
		}
		return p
	}
	smsize := ms
	if v := uint32(c.cfg("smsize")); v > ms {
		smsize = v
	}
	sys := NewSrvSys(x, fs, fs, smsize, true, int(c.cfg("maxpend")), int(c.cfg("debug")))
	sc := sys.AddConn(0, int(c.cfg("seg")))
	peer := sc.Peer
	fifo := c.cfg("fifo") == 1
	type exp struct {
		m     *Msg
		s     *Sent
		kind  string
		nonce uint64
		data  []byte
	}
	var exps []*exp
	setupOK := false
	var sessionStart int
	rt.Go(rt.SiteSpawn, func() {
		rt.SetName("client")
		ver := "9P2000"
		if c.cfg("dotu") != 0 {
			ver = "9P2000.u"
		}
		if r := peer.Call(&Msg{Type: Tversion, Tag: NOTAG, Msize: ms, Version: ver}); r == nil || r.M == nil || r.M.Type != Rversion {
			x.Violate("setup", "no Rversion")
			return
		}
		for _, m := range []*Msg{{Type: Tattach, Tag: 1, Fid: 0, Afid: NOFID, Uname: "u1", Nuname: 1},
			{Type: Twalk, Tag: 1, Fid: 0, Newfid: 1, Wname: []string{"f"}}, {Type: Topen, Tag: 1, Fid: 1, Mode: 2}} {
			if r := peer.Call(m); r == nil || r.M == nil || r.M.Type == Rerror {
				x.Violate("setup", "setup %s failed", m)
				return
			}
		}
		setupOK = true
		// build the whole session
		var msgs []*Msg
		for i, op := range c.Ops {
			tag := uint16(10 + i)
			if fifo {
				tag = 5
			}
			nonce := uint64(i)*1000003 + 11
			e := &exp{kind: op.K, nonce: nonce}
			switch op.K {
			case "write":
				e.data = pattern(int(op.a(0)), nonce, 1, 2)
				e.m = &Msg{Type: Twrite, Tag: tag, Fid: 1, Offset: nonce, Count: uint32(len(e.data)), Data: e.data}
			case "read":
				e.m = &Msg{Type: Tread, Tag: tag, Fid: 1, Offset: nonce, Count: uint32(op.a(0))}
			case "flush":
				e.m = &Msg{Type: Tflush, Tag: tag, Oldtag: 60000}
			case "clunkbad":
				e.m = &Msg{Type: Tclunk, Tag: tag, Fid: 77777}
			case "bigstat":
				e.m = &Msg{Type: Tstat, Tag: tag, Fid: 0}
			case "wstat":
				e.m = &Msg{Type: Twstat, Tag: tag, Fid: 1, Stat: Stat{Type: 0xFFFF, Dev: 0xFFFFFFFF, Qid: Qid{0xFF, 0xFFFFFFFF, ^uint64(0)}, Mode: 0xFFFFFFFF,
					Atime: 0xFFFFFFFF, Mtime: uint32(i), Length: ^uint64(0), Nuid: 0xFFFFFFFF, Ngid: 0xFFFFFFFF, Nmuid: 0xFFFFFFFF}}
				base := len(Encode(e.m, peer.Dotu))
				if int(ms) > base {
					e.m.Stat.Name = string(bytes.Repeat([]byte{'n'}, int(ms)-base))
				}
				if len(Encode(e.m, peer.Dotu)) == int(ms) {
					x.Probe("message-of-exactly-msize")
				}
			default:
				continue
			}
			exps = append(exps, e)
			msgs = append(msgs, e.m)
		}
		sessionStart = sc.Clnt.Out.Written
		switch c.cfg("delivery") {
		case 0:
			// several writes of drawn sizes (in messages)
			for i := 0; i < len(msgs); {
				k := 1 + rt.Choose(8)
				if i+k > len(msgs) {
					k = len(msgs) - i
				}
				ss := peer.Write(msgs[i : i+k]...)
				for j, s := range ss {
					exps[i+j].s = s
				}
				i += k
			}
		default:
			total := 0
			for _, m := range msgs {
				total += len(Encode(m, peer.Dotu))
			}
			if c.cfg("delivery") == 2 && total > 0 {
				p := int(c.cfg("split")) % total
				sc.Srv.In.Bounds = []int{sessionStart + p}
				sc.Srv.In.Seg = rt.SegAll
				x.Fault("single-split-point")
				if p < 4 {
					x.Probe("split-inside-first-size-prefix")
				}
			}
			ss := peer.Write(msgs...)
			for j, s := range ss {
				exps[j].s = s
			}
			x.Fault("whole-session-one-write")
		}
	})
	// run, releasing parked requests one at a time
	for {
		if !x.Run() {
			return
		}
		held := fs.HeldInvs()
		if len(held) == 0 {
			break
		}
		if !fifo && len(x.Res.Viol) == 0 {
			// whatever the segmentation, a request parked in the implementation holds up nothing but itself
			// (the messages carry distinct tags here): everything else that was written has been answered
			for i, e := range exps {
				if e.s == nil || e.s.Reply != nil {
					continue
				}
				parked := false
				for _, h := range held {
					if h.Tag == e.m.Tag {
						parked = true
					}
				}
				if !parked {
					x.Violate("s6-held-up", "message %d (%s) has no reply at quiescence although it is not one of the %d requests parked in the implementation: where a read ended decided whether it is served", i, e.m, len(held))
					break
				}
			}
			x.Probe("quiescence-with-requests-parked")
		}
		held[x.S.Choose(len(held))].Released = true
	}
	if !setupOK {
		x.Violate("s1-no-reply", "the session's setup (Tversion, Tattach, Twalk, Topen, one message per write) was never completed: a request got no reply")
		return
	}
	x.FaultN("seg-split", sc.Srv.In.Splits)
	x.FaultN("coalesce", sc.Srv.In.Coalesced)
	// oracle: every message answered exactly as the byte stream demands
	lastIdx, lastSeq := -1, -1
	for i, e := range exps {
		if e.s == nil {
			x.Violate("s0-not-sent", "message %d was never written", i)
			continue
		}
		rep := e.s.Reply
		if rep == nil || rep.M == nil {
			x.Violate("s1-no-reply", "message %d (%s) got no reply", i, e.m)
			continue
		}
		if fifo {
			if rep.Idx < lastIdx {
				x.Violate("s2-reply-order", "reply to message %d (%s) precedes the reply to an earlier message of the same tag", i, e.m)
			}
			lastIdx = rep.Idx
		}
		var want *Msg
		switch e.kind {
		case "flush":
			want = &Msg{Type: Rflush}
		case "bigstat":
			// what the implementation answered does not fit the negotiated msize: an error does, however the
			// request stream was cut up
			if rep.M.Type != Rerror || rep.M.Tag != e.m.Tag || len(rep.Raw) > int(ms) {
				x.Violate("s5-reply", "message %d (%s), whose Rstat cannot fit msize %d: reply %s (%d bytes), want an Rerror that fits", i, e.m, ms, rep.M, len(rep.Raw))
			}
			continue
		case "clunkbad":
			// refused by the framework; the error number is the library's business
			if rep.M.Type != Rerror || !bytes.Contains([]byte(rep.M.Ename), []byte("unknown fid")) || rep.M.Tag != e.m.Tag {
				x.Violate("s5-reply", "message %d (%s): reply %s, want Rerror 'unknown fid' with its tag", i, e.m, rep.M)
			}
			continue
		default:
			var inv *Inv
			for _, in := range fs.Log {
				if in.Req != nil && in.TcType == e.m.Type && in.Fid == 1 && in.Tag == e.m.Tag && (e.kind == "wstat" && in.Args != "" && in.Req.Tc.Dir.Mtime == e.m.Stat.Mtime || e.kind != "wstat" && in.Req.Tc.Offset == e.nonce) {
					inv = in
					break
				}
			}
			if inv == nil {
				x.Violate("s3-not-executed", "message %d (%s) never reached the implementation; reply %s", i, e.m, rep.M)
				continue
			}
			if fifo {
				if inv.Seq < lastSeq {
					x.Violate("s2-exec-order", "message %d (%s) was executed before an earlier message of the same tag", i, e.m)
				}
				lastSeq = inv.Seq
			}
			switch e.kind {
			case "write":
				wantArgs := fmt.Sprintf("offset=%d count=%d hash=%x", e.nonce, len(e.data), fnvBytes(e.data))
				if inv.Args != wantArgs {
					x.Violate("s4-args", "message %d: implementation saw Twrite %s, the stream carried %s", i, inv.Args, wantArgs)
				}
			case "read":
				wantArgs := fmt.Sprintf("offset=%d count=%d", e.nonce, e.m.Count)
				if inv.Args != wantArgs {
					x.Violate("s4-args", "message %d: implementation saw Tread %s, the stream carried %s", i, inv.Args, wantArgs)
				}
			case "wstat":
				if inv.Req.Tc.Dir.Name != e.m.Stat.Name {
					x.Violate("s4-args", "message %d: Twstat name of %d bytes arrived as %d bytes", i, len(e.m.Stat.Name), len(inv.Req.Tc.Dir.Name))
				}
			}
			want = inv.Expect
		}
		if want == nil {
			x.Violate("s5-reply", "message %d (%s): no expected reply although answered with %s", i, e.m, rep.M)
			continue
		}
		w := *want
		w.Tag = e.m.Tag
		if wb := Encode(&w, peer.Dotu); !bytes.Equal(wb, rep.Raw) {
			x.Violate("s5-reply", "message %d (%s): reply %s (% x) differs from the expected %s (% x)", i, e.m, rep.M, head(rep.Raw, 40), &w, head(wb, 40))
		}
	}
	// the invocation log holds nothing the stream did not carry
	n := 0
	for _, in := range fs.Log {
		if in.Req != nil && in.Step > 0 && (in.Op == "write" || in.Op == "read" || in.Op == "wstat") {
			n++
		}
	}
	m := 0
	for _, e := range exps {
		if e.kind == "write" || e.kind == "read" || e.kind == "wstat" {
			m++
		}
	}
	if n != m {
		x.Violate("s6-extra-exec", "the stream carried %d read/write/wstat messages, the implementation executed %d", m, n)
	}
	if sc.Clnt.Out.Written-sessionStart > 8*int(ms) {
		x.Probe("session-larger-than-receive-buffer")
	}
}

// c13Handshake: Tversion and the requests behind it arrive as one byte stream under the run's segmentation. The
// replies must be those the same bytes get when every message is delivered by itself: Rversion, then each request
// decoded in the dialect and msize that Tversion agreed on.
func c13Handshake(x *Ctx) {
	c := x.C
	fs := NewScriptFS(x)
	fs.PlanFor = func(inv *Inv) *Plan { return &Plan{NWqid: -1, NData: -1, QType: qDir} }
	sys := NewSrvSys(x, fs, fs, uint32(c.cfg("msize")), true, int(c.cfg("maxpend")), int(c.cfg("debug")))
	sc := sys.AddConn(0, int(c.cfg("seg")))
	peer := sc.Peer
	dotu := c.cfg("dotu") != 0 // the server speaks .u: the dialect is the one the client asks for
	ver := "9P2000"
	if dotu {
		ver = "9P2000.u"
	}
	r := NewRand(c.Seed ^ 0x13a)
	var msgs []*Msg
	var kinds []string
	msgs = append(msgs, &Msg{Type: Tversion, Tag: NOTAG, Msize: uint32(c.cfg("cmsize")), Version: ver})
	kinds = append(kinds, "version")
	for i := 0; i < int(c.cfg("nmsg")); i++ {
		tag := uint16(10 + i)
		switch r.Intn(5) {
		case 0:
			msgs = append(msgs, &Msg{Type: Tattach, Tag: tag, Fid: uint32(20 + i), Afid: NOFID, Uname: "u1", Aname: "", Nuname: 1})
			kinds = append(kinds, "attach")
		case 1:
			msgs = append(msgs, &Msg{Type: Tcreate, Tag: tag, Fid: 7777, Name: "n", Perm: 0o644, Mode: 1, Ext: ""})
			kinds = append(kinds, "unknown-fid")
		case 2:
			msgs = append(msgs, &Msg{Type: Twstat, Tag: tag, Fid: 7777, Stat: nullStat(func(st *Stat) { st.Name = "x" })})
			kinds = append(kinds, "unknown-fid")
		case 3:
			msgs = append(msgs, &Msg{Type: Tauth, Tag: tag, Afid: uint32(1000 + i), Uname: "u1", Aname: "", Nuname: 1}) // (not 40+i: the refused Tauth holds its number while it is in flight, and message i+20 attaches fid 40+i)
			kinds = append(kinds, "no-auth")
		default:
			msgs = append(msgs, &Msg{Type: Tstat, Tag: tag, Fid: 7777})
			kinds = append(kinds, "unknown-fid")
		}
	}
	agreed := int(c.cfg("msize"))
	if cm := int(c.cfg("cmsize")); cm < agreed {
		agreed = cm
	}
	for i := 1; i < len(msgs); i++ {
		if len(Encode(msgs[i], dotu)) > agreed {
			msgs[i] = &Msg{Type: Tstat, Tag: msgs[i].Tag, Fid: 7777} // would not fit the msize being agreed
			kinds[i] = "unknown-fid"
		}
	}
	var sent []*Sent
	rt.Go(rt.SiteSpawn, func() {
		rt.SetName("client")
		// Tversion is encoded the same in both dialects; what follows is encoded in the dialect it asks for
		var all []byte
		off := sc.Clnt.Out.Written
		start := off
		for _, m := range msgs {
			b := Encode(m, dotu)
			s := &Sent{Idx: len(peer.Sent), M: m, Raw: b, Start: off + len(all), End: off + len(all) + len(b), Step: rt.Step()}
			all = append(all, b...)
			peer.Sent = append(peer.Sent, s)
			peer.out = append(peer.out, s)
			sent = append(sent, s)
		}
		if c.cfg("delivery") == 2 {
			p := int(c.cfg("split")) % len(all)
			sc.Srv.In.Bounds = []int{start + p}
			sc.Srv.In.Seg = rt.SegAll
			x.Fault("single-split-point")
		} else {
			x.Fault("whole-session-one-write")
		}
		peer.Dotu = dotu // replies come in the negotiated dialect
		peer.WriteRaw(all)
	})
	if !x.Run() {
		return
	}
	x.FaultN("seg-split", sc.Srv.In.Splits)
	for i, s := range sent {
		what := fmt.Sprintf("message %d (%s) of a stream that starts with Tversion(%q)", i, s.M, ver)
		if s.Reply == nil || s.Reply.M == nil {
			x.Violate("s1-no-reply", "%s got no reply (connection closed: %v)", what, peer.EOF)
			return
		}
		rep := s.Reply.M
		switch kinds[i] {
		case "version":
			wantMs := uint32(c.cfg("msize"))
			if cm := uint32(c.cfg("cmsize")); cm < wantMs {
				wantMs = cm
			}
			if rep.Type != Rversion || rep.Version != ver || rep.Msize != wantMs {
				x.Violate("s5-reply", "%s answered %s, want Rversion msize=%d version=%q", what, rep, wantMs, ver)
			}
		case "attach":
			if rep.Type != Rattach {
				x.Violate("s5-reply", "%s answered %s, want Rattach", what, rep)
			}
		case "unknown-fid":
			if rep.Type != Rerror || rep.Ename != "unknown fid" {
				x.Violate("s5-reply", "%s answered %s, want Rerror 'unknown fid'", what, rep)
			}
		case "no-auth":
			if rep.Type != Rerror {
				x.Violate("s5-reply", "%s answered %s, want Rerror (no authentication)", what, rep)
			}
		}
	}
	// what reached the implementation carries the arguments the stream carried
	for _, in := range fs.Log {
		if in.Op == "attach" && in.Req != nil && (in.Req.Tc.Uname != "u1" || in.Req.Tc.Aname != "") {
			x.Violate("s4-args", "Tattach arrived at the implementation with uname %q aname %q, the stream carried \"u1\" and \"\"", in.Req.Tc.Uname, in.Req.Tc.Aname)
		}
	}
	x.Probe("requests-behind-tversion-in-one-stream")
}
