package h

import (
	"github.com/rminnich/go9p/vsim/rt"
)

// Sent is one frame written by the raw client peer.
type Sent struct {
	Idx        int
	M          *Msg
	Raw        []byte
	Start, End int // offsets in the client->server stream
	Step       int
	Reply      *Recvd
}

// Recvd is one frame read by the raw client peer.
type Recvd struct {
	Idx        int
	M          *Msg // nil if undecodable
	Raw        []byte
	Start, End int // offsets in the server->client stream
	Step       int // step at which its last byte was read
	WStep      int // step at which the server wrote its first byte
	Err        error
	For        *Sent
}

// ClntPeer is a harness-side raw 9P client endpoint with its own codec.
type ClntPeer struct {
	x           *Ctx
	Conn        *rt.Conn
	Dotu        bool
	Msize       uint32
	Sent        []*Sent
	Recv        []*Recvd
	EOF         bool
	ReadErr     error
	BadSize     bool
	OnReply     func(r *Recvd)
	StopReading bool // the client stops taking replies off the connection
	// outstanding requests in issue order (a slice, not a map: see case.go on the race detector)
	out []*Sent
	G   *rt.G
}

func NewClntPeer(x *Ctx, conn *rt.Conn) *ClntPeer {
	return &ClntPeer{x: x, Conn: conn, Msize: 1 << 20}
}

// StartReader spawns the goroutine that reads and independently decodes
// everything the server writes.
func (p *ClntPeer) StartReader() {
	p.G = rt.Go(rt.SiteSpawn, func() {
		rt.SetName("clntpeer-reader")
		rt.HarnessOnly()
		var fr Framer
		buf := make([]byte, 1<<16)
		for {
			if p.StopReading {
				rt.YieldUntil(rt.SiteActor, func() bool { return !p.StopReading })
			}
			n, err := p.Conn.Read(buf)
			if err != nil {
				p.EOF = true
				p.ReadErr = err
				return
			}
			fr.Feed(buf[:n])
			for {
				f, start, bad := fr.Next()
				if bad {
					p.BadSize = true
					p.x.Violate("wire-size", "server wrote a frame whose size prefix is below 7 at stream offset %d", start)
					return
				}
				if f == nil {
					break
				}
				r := &Recvd{Idx: len(p.Recv), Raw: f, Start: start, End: start + len(f), Step: rt.Step(), WStep: p.Conn.In.WrittenAt(start)}
				m, err := Decode(f, p.Dotu)
				if err != nil && len(f) >= 7 && f[5] == 0xFF && f[6] == 0xFF {
					// a reply to Tversion precedes any negotiated dialect: accept either encoding
					if m2, err2 := Decode(f, !p.Dotu); err2 == nil {
						m, err = m2, nil
					}
				}
				r.M, r.Err = m, err
				if err != nil {
					p.x.Violate("wire-decode", "server wrote a frame the independent decoder rejects (dotu=%v): %v: % x", p.Dotu, err, head(f, 40))
				} else {
					if s := p.takeOut(m.Tag); s != nil {
						r.For = s
						s.Reply = r
					}
					if m.Type == Rversion {
						p.Dotu = m.Version == "9P2000.u"
						p.Msize = m.Msize
					}
				}
				p.Recv = append(p.Recv, r)
				if p.OnReply != nil {
					p.OnReply(r)
				}
			}
		}
	})
}

// Write encodes the messages and writes them in ONE transport write (one
// segment as far as the sender is concerned).
func (p *ClntPeer) Write(ms ...*Msg) []*Sent {
	var all []byte
	var ss []*Sent
	off := p.Conn.Out.Written
	for _, m := range ms {
		b := Encode(m, p.Dotu)
		s := &Sent{Idx: len(p.Sent), M: m, Raw: b, Start: off + len(all), End: off + len(all) + len(b), Step: rt.Step()}
		all = append(all, b...)
		p.Sent = append(p.Sent, s)
		p.out = append(p.out, s)
		ss = append(ss, s)
	}
	p.Conn.Write(all)
	return ss
}

// WriteRaw writes arbitrary bytes (hostile peer).
func (p *ClntPeer) WriteRaw(b []byte) { p.Conn.Write(b) }

// Call writes one request and parks until its reply has been read (or the
// connection is gone). For setup phases and sequential histories.
func (p *ClntPeer) Call(m *Msg) *Recvd {
	s := p.Write(m)[0]
	rt.YieldUntil(rt.SiteActor, func() bool { return s.Reply != nil || p.EOF || p.BadSize })
	return s.Reply
}

// Outstanding reports how many requests have no reply yet.
func (p *ClntPeer) Outstanding() int { return len(p.out) }

// takeOut removes and returns the oldest outstanding request with the tag.
func (p *ClntPeer) takeOut(tag uint16) *Sent {
	for i, s := range p.out {
		if s.M.Tag == tag {
			p.out = append(p.out[:i:i], p.out[i+1:]...)
			return s
		}
	}
	return nil
}

// dropOut removes a specific outstanding request (it was cancelled).
func (p *ClntPeer) dropOut(t *Sent) {
	for i, s := range p.out {
		if s == t {
			p.out = append(p.out[:i:i], p.out[i+1:]...)
			return
		}
	}
}

// putBackOut makes s the oldest outstanding request again.
func (p *ClntPeer) putBackOut(s *Sent) { p.out = append([]*Sent{s}, p.out...) }
