package h

// C04, stratum "ufs-fid-table": the fid table with the real Unix file server
// as the implementation (which itself looks fids up: Tcreate of a hard link
// names its source by fid number). Only validity is modelled, and the model
// follows the replies: a number becomes valid by Rattach or a complete Rwalk,
// invalid by Rclunk or any Tremove. A request on an invalid number must be
// refused with 'unknown fid', a bind of a valid number with 'fid in use', a
// request on a valid number must not be told 'unknown fid', and at the end
// Tstat probes every number.

import (
	"fmt"
	"os"
	"path/filepath"
	"strings"

	"github.com/rminnich/go9p/vsim/rt"
)

func c04UfsGen(r *Rand, c *Case, tier string) {
	c.Stratum = "ufs-fid-table"
	c.Cfg["ufsfids"] = 1
	c.Cfg["nops"] = int64(r.Range(10, 40))
	if tier == "thorough" {
		c.Cfg["nops"] = int64(r.Range(10, 150))
	}
	c.Cfg["dotu"] = int64(r.Pick(0, 1, 1))
}

func c04UfsExec(x *Ctx) {
	c := x.C
	u := NewUfsSys(x, 8192, true, int(c.cfg("maxpend")), 0)
	if u == nil {
		return
	}
	defer u.Cleanup()
	os.WriteFile(filepath.Join(u.Root, "a"), []byte("aaaa"), 0o644)
	os.WriteFile(filepath.Join(u.Root, "b"), []byte("bb"), 0o644)
	os.MkdirAll(filepath.Join(u.Root, "d"), 0o755)
	os.WriteFile(filepath.Join(u.Root, "d", "x"), []byte("x"), 0o644)
	sc := u.Raw(int(c.cfg("seg")))
	p := sc.Peer
	r := NewRand(c.Seed ^ 0xF1D5)
	finished := false
	rt.Go(rt.SiteSpawn, func() {
		rt.SetName("raw-client")
		ver := "9P2000"
		if c.cfg("dotu") != 0 {
			ver = "9P2000.u"
		}
		if rr := p.Call(&Msg{Type: Tversion, Tag: NOTAG, Msize: 8192, Version: ver}); rr == nil || rr.M == nil || rr.M.Type != Rversion {
			x.Violate("setup", "Tversion failed")
			return
		}
		valid := map[uint32]bool{}
		nos := []uint32{0, 1, 2, 3, 4, 5}
		tag := uint16(0)
		call := func(m *Msg) *Msg {
			tag++
			m.Tag = tag
			rr := p.Call(m)
			if rr == nil || rr.M == nil {
				x.Violate("a0-no-reply", "%s got no reply", m)
				return nil
			}
			return rr.M
		}
		unknown := func(m *Msg) bool { return m.Type == Rerror && strings.Contains(m.Ename, "unknown fid") }
		paths := [][]string{nil, {"a"}, {"d"}, {"d", "x"}, {"nope"}, {"a", "zz"}, {"d", "nope"}, {"b"}}
		pick := func() uint32 { return nos[r.Intn(len(nos))] }
		for k := int(c.cfg("nops")); k > 0; k-- {
			f := pick()
			var m *Msg
			needsFid := true
			extFid := false
			switch r.Intn(12) {
			case 0:
				m = &Msg{Type: Tattach, Fid: f, Afid: NOFID, Uname: "root", Aname: "", Nuname: 0}
				needsFid = false
			case 1, 2, 3:
				m = &Msg{Type: Twalk, Fid: f, Newfid: pick(), Wname: paths[r.Intn(len(paths))]}
			case 4:
				m = &Msg{Type: Topen, Fid: f, Mode: uint8(r.Pick(0, 1, 2))}
			case 5:
				perm, ext := uint32(0o644), ""
				switch r.Intn(5) {
				case 0:
					perm = 0x80000000 | 0o755
				case 1:
					perm, ext = 0x02000000|0o777, "a"
				case 2, 3:
					perm, ext = 0x01000000|0o644, fmt.Sprint(pick()) // hard link to whatever that fid designates
					extFid = true
				}
				m = &Msg{Type: Tcreate, Fid: f, Name: []string{"a", "new1", "new2", "d"}[r.Intn(4)], Perm: perm, Mode: 0, Ext: ext}
			case 6:
				m = &Msg{Type: Tread, Fid: f, Offset: 0, Count: 100}
			case 7:
				m = &Msg{Type: Tstat, Fid: f}
			case 8, 9:
				m = &Msg{Type: Tclunk, Fid: f}
			case 10:
				m = &Msg{Type: Tremove, Fid: f}
			default:
				m = &Msg{Type: Twstat, Fid: f, Stat: nullStat(func(*Stat) {})}
			}
			wasValid := valid[f]
			newWasValid := m.Type == Twalk && m.Newfid != f && valid[m.Newfid]
			rep := call(m)
			if rep == nil {
				return
			}
			what := fmt.Sprintf("%s (fid %d valid: %v)", m, f, wasValid)
			switch {
			case needsFid && !wasValid:
				if !unknown(rep) {
					x.Violate("a1-not-refused", "%s names an invalid fid and must be refused with 'unknown fid', but was answered %s", what, rep)
				}
			case !needsFid && wasValid:
				if rep.Type != Rerror || !strings.Contains(rep.Ename, "in use") {
					x.Violate("a1-not-refused", "%s would bind a fid that is valid and must be refused with 'fid in use', but was answered %s", what, rep)
				}
			case newWasValid:
				// the source fid may break a rule of its own (open, not a directory): any refusal will do
				if rep.Type != Rerror {
					x.Violate("a1-not-refused", "%s would bind the valid fid %d and must be refused, but was answered %s", what, m.Newfid, rep)
				}
			default:
				if unknown(rep) && !extFid {
					x.Violate("a2-error-text", "%s names only valid fids, yet was answered %s", what, rep)
				}
			}
			switch {
			case m.Type == Tattach && rep.Type == Rattach:
				valid[f] = true
			case m.Type == Twalk && rep.Type == Rwalk && len(rep.Wqid) == len(m.Wname):
				valid[m.Newfid] = true
			case m.Type == Tclunk && rep.Type == Rclunk:
				delete(valid, f)
				x.Probe("fid-invalidated")
			case m.Type == Tremove && wasValid:
				delete(valid, f)
				x.Probe("fid-invalidated")
			}
			if extFid && rep.Type == Rerror && wasValid {
				x.Probe("failed-hard-link-create-naming-a-fid")
			}
		}
		for _, f := range nos {
			rep := call(&Msg{Type: Tstat, Fid: f})
			if rep == nil {
				return
			}
			if valid[f] == unknown(rep) {
				x.Violate("a7-probe", "after the history fid %d must be %s, but Tstat answered %s", f, map[bool]string{true: "valid", false: "invalid"}[valid[f]], rep)
			}
		}
		finished = true
	})
	if !x.Run() {
		return
	}
	u.CountFaults()
	if !finished && len(x.Res.Viol) == 0 {
		x.Violate("a0-no-reply", "the history did not finish")
	}
}
