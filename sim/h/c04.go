package h

// C04 — the fid table follows the protocol history exactly
// C05 — protocol rules are enforced before the implementation is called
// (DESIGN.md §4 C04/C05). One harness, two rule sets: rules "a*" belong to
// C04, rules "b*" to C05. A reference fid-table model (a map) predicts for
// every request whether the framework must refuse it (and how) or forward it
// exactly once, and what the fid table looks like afterwards.

import (
	"bytes"
	"fmt"
	"strings"

	"github.com/rminnich/go9p"
	"github.com/rminnich/go9p/vsim/rt"
)

func init() {
	register(&Property{ID: "C04", Gen: func(s uint64, r int, t string) *Case { return c45Gen(s, r, t, "C04") }, Exec: c45Exec})
	register(&Property{ID: "C05", Gen: func(s uint64, r int, t string) *Case { return c45Gen(s, r, t, "C05") }, Exec: c45Exec})
}

// ---- reference model ----

type mFid struct {
	user   int
	qtype  uint8 // QTDIR 0x80, QTAUTH 0x08, file 0
	opened bool
	omode  uint8
	ptr    *go9p.SrvFid // identity shown to the implementation when it was bound
	gen    int
}

type mConn struct {
	fids map[uint32]*mFid
}

type fidModel struct {
	conns []*mConn
	auth  bool
	dotu  bool
	msize uint32
}

const (
	qDir  = 0x80
	qAuth = 0x08
)

// verdict of the model for one request
type mVerdict struct {
	refuse   string // "" = forwarded; otherwise a keyword the error text must contain ("" + anyErr for rules that only demand an error)
	anyErr   bool   // refused, any error text will do
	op       string // implementation operation expected ("attach", "walk", ... or "authread"...)
	preAuth  []string
	fidNo    uint32
	user     int
	checkUsr bool
}

// c45 op field indices
const (
	fConn = iota
	fType
	fFid
	fFid2 // newfid / afid
	fArg  // mode / nwname / n_uname
	fArg2 // perm / count
	fErr
	fNWqid
	fQType
	fOff
	fAuthRefuse
)

var c45FidNos = []uint32{0, 1, 2, 3, 4, 5, 7, NOFID, NOFID - 1}

func tOp(conn int, typ uint8, fid, fid2 uint32, arg, arg2 int64, err bool, nwqid int, qtype uint8, off int64, authRefuse bool) Op {
	return Op{K: "t", A: []int64{int64(conn), int64(typ), int64(fid), int64(fid2), arg, arg2, b2i(err), int64(nwqid), int64(qtype), off, b2i(authRefuse)}}
}

func (m *fidModel) get(conn int, fid uint32) *mFid {
	return m.conns[conn].fids[fid]
}

// judge returns the verdict for op and applies the state transition.
func (m *fidModel) judge(op Op) mVerdict {
	ci := int(op.a(fConn))
	c := m.conns[ci]
	typ := uint8(op.a(fType))
	fid, fid2 := uint32(op.a(fFid)), uint32(op.a(fFid2))
	scriptErr := op.a(fErr) != 0
	v := mVerdict{fidNo: fid}
	f := m.get(ci, fid)
	needFid := typ != Tattach && typ != Tauth
	if needFid && f == nil {
		v.refuse = "unknown fid"
		return v
	}
	if f != nil {
		v.user, v.checkUsr = f.user, true
	}
	switch typ {
	case Tauth:
		// fid2 = afid
		if fid2 == NOFID {
			v.refuse = "unknown fid"
			return v
		}
		if c.fids[fid2] != nil {
			v.refuse = "in use"
			return v
		}
		uid := int(op.a(fArg))
		if uid < 0 || uid > 3 {
			v.anyErr = true // unknown user
			return v
		}
		if !m.auth {
			v.anyErr = true // no authentication required
			return v
		}
		v.op = "authinit"
		v.user, v.checkUsr = uid, true
		if !scriptErr {
			c.fids[fid2] = &mFid{user: uid, qtype: qAuth}
		}
	case Tattach:
		if fid == NOFID {
			v.refuse = "unknown fid"
			return v
		}
		if c.fids[fid] != nil {
			v.refuse = "in use"
			return v
		}
		uid := int(op.a(fArg))
		if !m.dotu {
			uid = 0 // plain 9P2000: the decoder leaves the numeric id 0 (see DESIGN.md §4, not asserted by name)
		}
		var af *mFid
		if fid2 != NOFID {
			af = c.fids[fid2]
			if af == nil {
				if uid < 0 || uid > 3 {
					v.anyErr = true // two things are wrong: either error will do
				} else {
					v.refuse = "unknown fid"
				}
				return v
			}
		}
		if uid < 0 || uid > 3 {
			v.anyErr = true
			return v
		}
		v.user, v.checkUsr = uid, true
		if m.auth {
			v.preAuth = []string{"authcheck"}
			if op.a(fAuthRefuse) != 0 {
				v.anyErr = true
				v.op = "" // the attach must not reach the implementation
				return v
			}
		}
		v.op = "attach"
		if !scriptErr {
			c.fids[fid] = &mFid{user: uid, qtype: uint8(op.a(fQType))}
		}
	case Twalk:
		nw := int(op.a(fArg))
		if nw > 0 && f.qtype&qDir == 0 {
			v.anyErr = true
			return v
		}
		if f.opened {
			v.anyErr = true
			return v
		}
		if fid2 != fid {
			if c.fids[fid2] != nil {
				v.refuse = "in use"
				return v
			}
		}
		v.op = "walk"
		got := int(op.a(fNWqid))
		if got < 0 || got > nw {
			got = nw
		}
		if scriptErr || got != nw {
			return v // failed or partial walk: both fids as they were
		}
		nt := f.qtype
		if nw > 0 {
			nt = uint8(op.a(fQType))
		}
		if fid2 == fid {
			f.qtype = nt
		} else {
			c.fids[fid2] = &mFid{user: f.user, qtype: nt}
		}
	case Topen:
		mode := uint8(op.a(fArg))
		if f.opened {
			v.anyErr = true
			return v
		}
		if f.qtype&qDir != 0 && mode != 0 {
			v.anyErr = true
			return v
		}
		v.op = "open"
		if !scriptErr {
			f.opened, f.omode = true, mode
		}
	case Tcreate:
		perm := uint32(op.a(fArg2))
		mode := uint8(op.a(fArg))
		if f.opened || f.qtype&qDir == 0 {
			v.anyErr = true
			return v
		}
		if perm&0x80000000 != 0 && mode != 0 {
			v.anyErr = true
			return v
		}
		if perm&(0x02000000|0x01000000|0x00800000|0x00200000|0x00100000) != 0 && !m.dotu {
			v.anyErr = true
			return v
		}
		v.op = "create"
		if !scriptErr {
			f.opened, f.omode, f.qtype = true, mode, uint8(op.a(fQType))
		}
	case Tread:
		cnt := uint64(uint32(op.a(fArg2)))
		if cnt > uint64(m.msize-IOHDRSZ) {
			v.anyErr = true
			return v
		}
		if f.qtype&qAuth != 0 {
			if m.auth {
				v.op = "authread"
			} else {
				v.anyErr = true
			}
			return v
		}
		v.op = "read"
	case Twrite:
		cnt := uint64(uint32(op.a(fArg2)))
		if f.qtype&qAuth != 0 {
			if m.auth {
				v.op = "authwrite"
			} else {
				v.anyErr = true
			}
			return v
		}
		if !f.opened || f.qtype&qDir != 0 || (f.omode&3 != 1 && f.omode&3 != 2) {
			v.anyErr = true
			return v
		}
		if cnt > uint64(m.msize-IOHDRSZ) {
			v.anyErr = true
			return v
		}
		v.op = "write"
	case Tclunk:
		if f.qtype&qAuth != 0 {
			if m.auth {
				v.op = "authdestroy"
				delete(c.fids, fid)
			} else {
				v.anyErr = true
			}
			return v
		}
		v.op = "clunk"
		if !scriptErr {
			delete(c.fids, fid)
		}
	case Tremove:
		v.op = "remove"
		delete(c.fids, fid) // any Tremove invalidates the fid
	case Tstat:
		v.op = "stat"
	case Twstat:
		v.op = "wstat"
	}
	return v
}

// ---- generator (model-aware, so that histories reach interesting states) ----

func c45Gen(seed uint64, run int, tier string, prop string) *Case {
	r := NewRand(seed)
	c := &Case{Cfg: map[string]int64{}}
	genCommon(r, c.Cfg)
	ms := r.Pick(256, 1024, 8192)
	c.Cfg["msize"], c.Cfg["cmsize"] = int64(ms), int64(ms)
	c.Cfg["smsize"] = int64(r.Pick(ms, ms, 2*ms, 65536)) // the server may be willing to go higher than the client asks for
	c.Cfg["dotu"] = int64(r.Intn(2))
	c.Cfg["sdotu"] = 1
	c.Cfg["auth"] = int64(r.Intn(2))
	c.Cfg["maxpend"] = int64(r.Pick(0, 2, 64))
	c.Cfg["prochook"] = int64(r.Pick(0, 0, 1))
	if prop == "C04" && run%5 == 4 {
		c04BatchGen(r, c, tier)
		return c
	}
	if prop == "C04" && run%10 == 7 {
		c04UfsGen(r, c, tier)
		return c
	}
	nconn := r.Pick(1, 1, 2)
	c.Cfg["nconn"] = int64(nconn)
	n := r.Range(10, 40)
	if tier == "thorough" {
		n = r.Range(10, 200)
	}
	c.Stratum = fmt.Sprintf("auth=%d dotu=%d conns=%d", c.Cfg["auth"], c.Cfg["dotu"], nconn)
	m := &fidModel{auth: c.Cfg["auth"] != 0, dotu: c.Cfg["dotu"] != 0, msize: uint32(ms)}
	for i := 0; i < nconn; i++ {
		m.conns = append(m.conns, &mConn{fids: map[uint32]*mFid{}})
	}
	counts := []int64{0, 1, int64(ms) - 25, int64(ms) - 24, int64(ms) - 23, 1 << 31, 0xFFFFFFFF - 23, 0xFFFFFFFF - 10, 0xFFFFFFFF}
	pickFid := func(ci int, wantValid int) uint32 {
		// wantValid: 0 any, 1 prefer valid, 2 prefer free
		for try := 0; try < 6; try++ {
			f := c45FidNos[r.Intn(len(c45FidNos))]
			_, ok := m.conns[ci].fids[f]
			if wantValid == 0 || (wantValid == 1) == ok {
				return f
			}
		}
		return c45FidNos[r.Intn(len(c45FidNos))]
	}
	for i := 0; i < n; i++ {
		ci := r.Intn(nconn)
		var op Op
		// a qid type may carry more bits than "directory" (append-only, exclusive, mounted, temporary, symlink)
		qt := uint8(r.Pick(0, qDir, qDir, 0, qDir, qDir, qDir|0x40, qDir|0x20, qDir|0x10, qDir|0x04, 0x40, 0x02, 0x44))
		serr := r.Pct(20)
		if len(m.conns[ci].fids) == 0 && r.Pct(70) {
			op = tOp(ci, Tattach, pickFid(ci, 2), NOFID, int64(r.Intn(4)), 0, r.Pct(10), 0, qDir, 0, false)
		} else {
			switch r.Intn(14) {
			case 0:
				afid := uint32(NOFID)
				if r.Pct(40) {
					afid = pickFid(ci, r.Intn(2))
				}
				nf := pickFid(ci, r.Pick(2, 2, 0))
				if afid == nf {
					afid = NOFID // afid == fid is ambiguous (is the fid being bound a valid afid?) and not generated
				}
				op = tOp(ci, Tattach, nf, afid, int64(r.Pick(0, 1, 2, 3, 9)), 0, serr, 0, qt, 0, r.Pct(30))
			case 1:
				op = tOp(ci, Tauth, NOFID, pickFid(ci, r.Pick(2, 2, 0)), int64(r.Pick(0, 1, 2, 3, 9)), 0, serr, 0, 0, 0, false)
			case 2, 3, 4:
				src := pickFid(ci, r.Pick(1, 1, 1, 0))
				nf := pickFid(ci, r.Pick(2, 2, 2, 0))
				if r.Pct(15) {
					nf = src // in place
				}
				nw := r.Pick(0, 1, 1, 2, 3, 16)
				got := nw
				if r.Pct(35) && nw > 0 {
					got = r.Intn(nw) // partial (or zero: the script then answers an error-free Rwalk with 0 qids only when nw == 0)
				}
				op = tOp(ci, Twalk, src, nf, int64(nw), 0, serr, got, qt, 0, false)
			case 5, 6:
				op = tOp(ci, Topen, pickFid(ci, 1), 0, int64(r.Pick(0, 1, 2, 3, 16, 17, 64)), 0, serr, 0, 0, 0, false)
			case 7:
				perm := int64(r.Pick(0o644, 0o755, 0x80000000|0o755, 0x02000000, 0x01000000, 0x00800000, 0x00200000, 0x00100000, 0x08000000|0o644, 0x40000000|0o644, 0x20000000|0o600, 0x04000000|0o644)) // also the bits that mean nothing to the framework: DMAUTH, DMAPPEND, DMEXCL, DMTMP
				op = tOp(ci, Tcreate, pickFid(ci, 1), 0, int64(r.Pick(0, 1, 2, 3)), perm, serr, 0, uint8(r.Pick(0, 0, qDir, 0x40, qDir|0x04)), 0, false)
			case 8:
				op = tOp(ci, Tread, pickFid(ci, 1), 0, 0, counts[r.Intn(len(counts))], serr, 0, 0, int64(r.Intn(1000)), false)
			case 9:
				// a well-formed Twrite carries exactly count bytes, so only counts up to msize-23 can be expressed
				op = tOp(ci, Twrite, pickFid(ci, 1), 0, 0, counts[r.Intn(5)], serr, 0, 0, int64(r.Intn(1000)), false)
			case 10:
				op = tOp(ci, Tclunk, pickFid(ci, r.Pick(1, 1, 0)), 0, 0, 0, r.Pct(10), 0, 0, 0, false)
			case 11:
				op = tOp(ci, Tremove, pickFid(ci, r.Pick(1, 1, 0)), 0, 0, 0, serr, 0, 0, 0, false)
			case 12:
				op = tOp(ci, Tstat, pickFid(ci, r.Pick(1, 0)), 0, 0, 0, serr, 0, 0, 0, false)
			case 13:
				op = tOp(ci, Twstat, pickFid(ci, r.Pick(1, 0)), 0, 0, 0, serr, 0, 0, 0, false)
			}
		}
		m.judge(op)
		c.Ops = append(c.Ops, op)
	}
	return c
}

// ---- executor ----

func c45Msg(op Op, tag uint16, dotu bool, msize uint32) *Msg {
	typ := uint8(op.a(fType))
	m := &Msg{Type: typ, Tag: tag, Fid: uint32(op.a(fFid))}
	switch typ {
	case Tauth:
		m.Fid = 0
		m.Afid = uint32(op.a(fFid2))
		m.Uname = fmt.Sprintf("u%d", op.a(fArg))
		m.Aname = "tree"
		m.Nuname = uint32(op.a(fArg))
	case Tattach:
		m.Afid = uint32(op.a(fFid2))
		m.Uname = fmt.Sprintf("u%d", op.a(fArg))
		m.Aname = "tree"
		m.Nuname = uint32(op.a(fArg))
	case Twalk:
		m.Newfid = uint32(op.a(fFid2))
		for i := 0; i < int(op.a(fArg)); i++ {
			// a name is any string: now and then an empty one, '.', one with a slash (what they mean is the
			// implementation's business; the framework counts elements and qids)
			switch (int(tag) + 3*i) % 11 {
			case 0:
				m.Wname = append(m.Wname, "")
			case 1:
				m.Wname = append(m.Wname, ".")
			case 2:
				m.Wname = append(m.Wname, "a/b")
			default:
				m.Wname = append(m.Wname, fmt.Sprintf("e%d", i))
			}
		}
	case Topen:
		m.Mode = uint8(op.a(fArg))
	case Tcreate:
		m.Mode = uint8(op.a(fArg))
		m.Perm = uint32(op.a(fArg2))
		m.Name = fmt.Sprintf("new%d", tag)
		if dotu {
			m.Ext = "x"
		}
	case Tread:
		m.Offset = uint64(op.a(fOff))
		m.Count = uint32(op.a(fArg2))
	case Twrite:
		m.Offset = uint64(op.a(fOff))
		m.Count = uint32(op.a(fArg2))
		m.Data = pattern(int(m.Count), uint64(tag), 5, 5)
	case Twstat:
		m.Stat = Stat{Type: 0xFFFF, Dev: 0xFFFFFFFF, Mode: 0o640, Atime: 0xFFFFFFFF, Mtime: uint32(tag), Length: ^uint64(0), Name: "", Nuid: 0xFFFFFFFF, Ngid: 0xFFFFFFFF, Nmuid: 0xFFFFFFFF}
	}
	return m
}

func c45Exec(x *Ctx) {
	c := x.C
	if c.cfg("batch") != 0 {
		c04BatchExec(x)
		return
	}
	if c.cfg("ufsfids") != 0 {
		c04UfsExec(x)
		return
	}
	prop := c.Property
	report := func(rule, format string, a ...any) {
		// rules a* are C04's, b* are C05's; the shared harness evaluates both
		if (rule[0] == 'a' && prop == "C05") || (rule[0] == 'b' && prop == "C04") {
			return
		}
		x.Violate(rule, format, a...)
	}
	ms := uint32(c.cfg("msize"))
	auth := c.cfg("auth") != 0
	nconn := int(c.cfg("nconn"))
	if nconn < 1 {
		nconn = 1
	}
	fs := NewScriptFS(x)
	byTag := make([]map[uint16]Op, nconn)
	for i := range byTag {
		byTag[i] = map[uint16]Op{}
	}
	holdTag := make([]bool, 1<<16)
	hr := NewRand(c.Seed ^ 0x401d)
	fs.PlanFor = func(inv *Inv) *Plan {
		p := &Plan{NWqid: -1, NData: -1}
		if inv.Conn < 0 || inv.Conn >= nconn {
			return p
		}
		op, ok := byTag[inv.Conn][inv.Tag]
		if !ok {
			if inv.Op == "attach" {
				p.QType = qDir
			}
			if holdTag[inv.Tag] {
				p.Mode, p.OnFlush = PHold, 1
			}
			return p
		}
		p.Err = op.a(fErr) != 0
		p.QType = uint8(op.a(fQType))
		if inv.Op == "walk" {
			p.NWqid = int(op.a(fNWqid))
		}
		if (inv.Op == "read" || inv.Op == "write") && uint64(inv.Req.Tc.Count) > uint64(ms) {
			// never allocate what an unchecked count asks for; the invocation itself is the finding
			p.Err = true
		}
		if holdTag[inv.Tag] {
			p.Mode = PHold
			p.OnFlush = 1 // a Tflush of a request parked here cancels it (the epilogue's flush)
		}
		if inv.Op == "read" {
			p.NData = int(inv.Req.Tc.Count)
			if p.NData > 64 {
				p.NData = 64
			}
		}
		return p
	}
	fs.AuthInitErr = func(inv *Inv) bool {
		// the afid's request is the only Tauth in flight on that connection: find it by the afid pointer's conn
		for ci := range byTag {
			for _, op := range byTag[ci] {
				_ = op
			}
		}
		return fs.authErrNext
	}
	fs.AuthCheckErr = func(inv *Inv) bool { return fs.authErrNext }
	smsize := ms
	if v := uint32(c.cfg("smsize")); v > ms {
		smsize = v
	}
	sys := NewSrvSys(x, fs.OpsValue(auth, true), fs, smsize, true, int(c.cfg("maxpend")), int(c.cfg("debug")))
	model := &fidModel{auth: auth, msize: ms}
	for i := 0; i < nconn; i++ {
		sys.AddConn(0, int(c.cfg("seg")))
		model.conns = append(model.conns, &mConn{fids: map[uint32]*mFid{}})
	}
	// one sequential actor drives all connections in history order: the next
	// request is written the moment the previous reply has been read, while
	// the scheduler may still be running the previous worker.
	ptrs := make([]map[uint32]*go9p.SrvFid, nconn) // fid number -> identity currently bound (as seen in the invocation log)
	for i := range ptrs {
		ptrs[i] = map[uint32]*go9p.SrvFid{}
	}
	finished, epilogue := false, false
	rt.Go(rt.SiteSpawn, func() {
		rt.SetName("history")
		ver := "9P2000"
		if c.cfg("dotu") != 0 {
			ver = "9P2000.u"
		}
		for ci := 0; ci < nconn; ci++ {
			r := sys.Conns[ci].Peer.Call(&Msg{Type: Tversion, Tag: NOTAG, Msize: ms, Version: ver})
			if r == nil || r.M == nil || r.M.Type != Rversion {
				x.Violate("setup", "Tversion failed on conn %d", ci)
				return
			}
		}
		model.dotu = sys.Conns[0].Peer.Dotu
		for i, op := range c.Ops {
			if op.K != "t" {
				continue
			}
			ci := int(op.a(fConn)) % nconn
			op.A[fConn] = int64(ci)
			peer := sys.Conns[ci].Peer
			tag := uint16(i + 1)
			byTag[ci][tag] = op
			msg := c45Msg(op, tag, peer.Dotu, ms)
			if len(Encode(msg, peer.Dotu)) > int(ms) {
				continue // cannot be sent within msize
			}
			fs.authErrNext = (uint8(op.a(fType)) == Tauth && op.a(fErr) != 0) || (uint8(op.a(fType)) == Tattach && op.a(fAuthRefuse) != 0)
			// snapshot what the model says before the request
			before := len(fs.Log)
			typ := uint8(op.a(fType))
			var srcFid *mFid
			if f := model.get(ci, uint32(op.a(fFid))); f != nil && typ != Tattach && typ != Tauth {
				cp := *f
				srcFid = &cp
			}
			// now and then a request that the framework forwards is cancelled while the implementation has it
			// (Tflush, FlushOp calling req.Flush()): it has no effect on the table, and the history goes on
			var saved *fidModel
			switch typ {
			case Twalk, Tstat, Tclunk, Tremove, Topen, Tcreate, Tread, Twstat:
				if hr.Pct(8) {
					saved = model.clone()
				}
			}
			v := model.judge(op)
			var preSent *Sent
			if saved != nil && v.refuse == "" && !v.anyErr && v.op != "" && !strings.HasPrefix(v.op, "auth") {
				holdTag[tag] = true
				s := peer.Write(msg)[0]
				preSent = s
				rt.YieldUntil(rt.SiteActor, func() bool { return len(fs.HeldInvs()) > 0 || s.Reply != nil || peer.EOF })
				if len(fs.HeldInvs()) > 0 && s.Reply == nil {
					fr := peer.Call(&Msg{Type: Tflush, Tag: uint16(45000 + i%10000), Oldtag: tag})
					if fr == nil || fr.M == nil || fr.M.Type != Rflush {
						report("a0-no-reply", "Tflush of request %d (%s) was not answered with Rflush", i, msg)
						report("b0-no-reply", "Tflush of request %d (%s) was not answered with Rflush", i, msg)
						return
					}
					for _, h := range fs.HeldInvs() {
						h.Released = true
					}
					if s.Reply == nil {
						peer.dropOut(s)
						model = saved
						x.Probe("request-cancelled-mid-history")
						continue
					}
				}
				rt.YieldUntil(rt.SiteActor, func() bool { return s.Reply != nil || peer.EOF })
				if s.Reply == nil {
					report("a0-no-reply", "request %d (%s) got no reply", i, msg)
					report("b0-no-reply", "request %d (%s) got no reply", i, msg)
					return
				}
			}
			var rep *Recvd
			if preSent != nil {
				rep = preSent.Reply // it was answered before the flush could cancel it: judged like any other request
			} else if v.op == "write" && v.refuse == "" && !v.anyErr && hr.Pct(30) {
				// the implementation keeps the Twrite for a while and the client's next request (one the
				// framework refuses by itself) arrives meanwhile: what the implementation was handed stays intact
				holdTag[tag] = true
				s := peer.Write(msg)[0]
				rt.YieldUntil(rt.SiteActor, func() bool { return len(fs.HeldInvs()) > 0 || s.Reply != nil || peer.EOF })
				filler := peer.Call(&Msg{Type: Twstat, Tag: uint16(40000 + i%20000), Fid: 0x7FFFFFF0, Stat: nullStat(func(st *Stat) { st.Name = "a-name-long-enough-to-cover-a-message-header" })})
				if filler != nil && filler.M != nil && filler.M.Type != Rerror {
					report("a1-not-refused", "Twstat on the never-bound fid %#x was answered %s", 0x7FFFFFF0, filler.M)
				}
				for _, h := range fs.HeldInvs() {
					h.Released = true
				}
				rt.YieldUntil(rt.SiteActor, func() bool { return s.Reply != nil || peer.EOF })
				rep = s.Reply
				x.Probe("write-held-while-next-request-arrives")
			} else {
				rep = peer.Call(msg)
			}
			if rep == nil || rep.M == nil {
				report("a0-no-reply", "request %d (%s) got no reply", i, msg)
				report("b0-no-reply", "request %d (%s) got no reply", i, msg)
				return
			}
			// invocations caused by this request
			var invs, pre, destroyed []*Inv
			for _, in := range fs.Log[before:] {
				switch {
				case in.Op == "fiddestroy":
					destroyed = append(destroyed, in)
				case in.Op == "authcheck":
					pre = append(pre, in)
				case in.Op == "connopened" || in.Op == "connclosed" || in.Op == "flush":
				default:
					invs = append(invs, in)
				}
			}
			desc := fmt.Sprintf("request %d on conn %d: %s", i, ci, msg)
			dumpf("%s -> %s | impl: %s pre:%d destroyed:%d | model: refuse=%q anyErr=%v op=%q", desc, rep.M, invNames(invs), len(pre), len(destroyed), v.refuse, v.anyErr, v.op)
			isErr := rep.M.Type == Rerror
			switch {
			case v.refuse != "" || (v.anyErr && v.op == ""):
				if !isErr {
					if v.refuse != "" {
						report("a1-not-refused", "%s must be refused (%s) but was answered %s", desc, refuseWhy(v), rep.M)
					}
					report("b1-not-refused", "%s breaks a protocol rule and must be refused, but was answered %s", desc, rep.M)
				} else if v.refuse != "" && !strings.Contains(rep.M.Ename, v.refuse) {
					report("a2-error-text", "%s must be refused with an error saying %q, got %q", desc, v.refuse, rep.M.Ename)
				}
				wantPre := len(v.preAuth)
				if len(invs) != 0 && v.refuse == "" {
					report("b3-forwarded", "%s must be refused before the implementation is called, yet reached it (%s)", desc, invNames(invs))
				} else if len(invs) != 0 {
					report("a3-forwarded", "%s names an invalid / already bound fid, yet reached the implementation (%s)", desc, invNames(invs))
					report("b3-forwarded", "%s must be refused before the implementation is called, yet reached it (%s)", desc, invNames(invs))
				}
				if len(pre) != wantPre {
					report("b4-auth-gate", "%s: expected %d authentication checks, saw %d", desc, wantPre, len(pre))
				}
				x.Probe("refused-before-forward")
			default:
				if len(v.preAuth) > 0 && len(pre) != 1 {
					report("b4-auth-gate", "%s: the attach reached the implementation with %d authentication checks (want exactly 1 accepting one)", desc, len(pre))
				}
				if len(invs) != 1 || invs[0].Op != v.op {
					report("b5-forward-once", "%s satisfies the rules and must be forwarded exactly once as %q; implementation saw %s; reply %s", desc, v.op, invNames(invs), rep.M)
					break
				}
				in := invs[0]
				if in.Req != nil {
					if v.checkUsr && in.User != v.user && in.Op != "attach" {
						report("a4-user", "%s: the implementation was shown user %d, the fid is bound to user %d", desc, in.User, v.user)
					}
					if in.Op == "attach" && userID(in.FidP) >= 0 && v.checkUsr && userID(in.FidP) != v.user && model.dotu {
						report("a4-user", "%s: attach bound user %d, the client named %d", desc, userID(in.FidP), v.user)
						report("b9-user", "%s: the attach was forwarded with user %d, the client named %d", desc, userID(in.FidP), v.user)
					}
					// identity: the same *SrvFid as when the number was bound
					if p, ok := ptrs[ci][uint32(op.a(fFid))]; ok && srcFid != nil && in.FidP != p {
						report("b6-fid-identity", "%s: the implementation was handed a different fid object than the one bound to fid %d", desc, op.a(fFid))
					}
					if bad := argsMismatch(in, msg); bad != "" {
						report("b7-args", "%s: %s", desc, bad)
					}
					// content: exactly what the implementation produced
					if in.Expect != nil {
						e := *in.Expect
						e.Tag = tag
						if want := Encode(&e, peer.Dotu); !bytes.Equal(want, rep.Raw) {
							report("b8-reply", "%s: reply %s differs from what the implementation produced (%s)", desc, rep.M, &e)
						}
					}
					// remember identities
					switch in.Op {
					case "attach":
						ptrs[ci][uint32(op.a(fFid))] = in.FidP
					case "walk":
						if rep.M.Type == Rwalk && len(rep.M.Wqid) == len(msg.Wname) {
							ptrs[ci][msg.Newfid] = in.NewfidP
						}
					}
				} else if in.Op == "authinit" && !isErr {
					ptrs[ci][msg.Afid] = in.FidP
				}
				x.Probe("forwarded-" + v.op)
			}
			// destruction is reported no later than the reply that invalidates the fid, once, and only then
			_, stillValid := model.conns[ci].fids[uint32(op.a(fFid))]
			if srcFid != nil && !stillValid && !isErrFor(typ, isErr) {
				// fid invalidated by this request
				n := 0
				for _, d := range destroyed {
					if d.FidP == ptrs[ci][uint32(op.a(fFid))] || ptrs[ci][uint32(op.a(fFid))] == nil {
						n++
						if d.Step > rep.WStep {
							report("a5-destroy-late", "%s: FidDestroy was reported at step %d, after the reply had been written at step %d", desc, d.Step, rep.WStep)
						}
					}
				}
				if n != 1 {
					report("a5-destroy-count", "%s invalidates fid %d: the implementation was told of its destruction %d times by the time of the reply", desc, op.a(fFid), n)
				}
				delete(ptrs[ci], uint32(op.a(fFid)))
				x.Probe("fid-invalidated")
			} else if stillValid || srcFid == nil {
				for _, d := range destroyed {
					if p, ok := ptrs[ci][uint32(op.a(fFid))]; ok && d.FidP == p && stillValid {
						report("a6-destroyed-live", "%s: fid %d stays valid but its destruction was reported", desc, op.a(fFid))
					}
				}
			}
		}
		// probes: Tstat on every fid number of every connection
		for ci := 0; ci < nconn; ci++ {
			peer := sys.Conns[ci].Peer
			for k, fno := range c45FidNos {
				before := len(fs.Log)
				rep := peer.Call(&Msg{Type: Tstat, Tag: uint16(9000 + k), Fid: fno})
				if rep == nil || rep.M == nil {
					report("a0-no-reply", "probe Tstat fid %d on conn %d got no reply", fno, ci)
					return
				}
				f := model.get(ci, fno)
				nstat := 0
				for _, in := range fs.Log[before:] {
					if in.Op == "stat" {
						nstat++
					}
				}
				if f == nil {
					if rep.M.Type != Rerror || !strings.Contains(rep.M.Ename, "unknown fid") || nstat != 0 {
						report("a7-probe", "after the history fid %d on conn %d must be invalid, but Tstat answered %s (implementation calls: %d)", fno, ci, rep.M, nstat)
					}
				} else if nstat != 1 {
					report("a7-probe", "after the history fid %d on conn %d must be valid, but Tstat answered %s without reaching the implementation", fno, ci, rep.M)
				}
			}
		}
		// epilogue (C04): the client leaves -- on some connections after a request of its was cancelled by a
		// Tflush -- and every fid the implementation was ever shown must have been reported destroyed exactly once
		if prop == "C04" && hr.Pct(60) {
			epilogue = true
			for ci := 0; ci < nconn; ci++ {
				peer := sys.Conns[ci].Peer
				var some []uint32
				for _, fno := range c45FidNos {
					if f := model.get(ci, fno); f != nil && f.qtype&qAuth == 0 {
						some = append(some, fno)
					}
				}
				if len(some) > 0 && hr.Pct(60) {
					tg := uint16(30000 + ci)
					holdTag[tg] = true
					s := peer.Write(&Msg{Type: Tstat, Tag: tg, Fid: some[hr.Intn(len(some))]})[0]
					rt.YieldUntil(rt.SiteActor, func() bool { return len(fs.HeldInvs()) > 0 || s.Reply != nil || peer.EOF })
					if fr := peer.Call(&Msg{Type: Tflush, Tag: tg + 100, Oldtag: tg}); fr == nil || fr.M == nil || fr.M.Type != Rflush {
						report("a0-no-reply", "the epilogue's Tflush was not answered with Rflush")
					}
					for _, h := range fs.HeldInvs() {
						h.Released = true
					}
					x.Probe("request-cancelled-before-the-disconnect")
				}
				if hr.Pct(40) {
					// a last Tversion before leaving: whatever it does to the fids, none is forgotten
					if vr := peer.Call(&Msg{Type: Tversion, Tag: NOTAG, Msize: ms, Version: "9P2000"}); vr == nil || vr.M == nil || vr.M.Type != Rversion {
						report("a0-no-reply", "a Tversion at the end of the history was not answered with Rversion")
					}
					x.Probe("tversion-before-the-disconnect")
				}
				parked := false
				if len(some) > 0 && hr.Pct(35) {
					// the client leaves while a request of its is still inside the implementation
					tg := uint16(31000 + ci)
					holdTag[tg] = true
					s := peer.Write(&Msg{Type: Tstat, Tag: tg, Fid: some[hr.Intn(len(some))]})[0]
					rt.YieldUntil(rt.SiteActor, func() bool { return len(fs.HeldInvs()) > 0 || s.Reply != nil || peer.EOF })
					parked = len(fs.HeldInvs()) > 0
				}
				sys.Conns[ci].Clnt.Close()
				if parked {
					for k := hr.Intn(8); k > 0; k-- {
						rt.Yield(rt.SiteActor)
					}
					for _, h := range fs.HeldInvs() {
						h.Released = true
					}
					x.Probe("request-in-flight-at-the-disconnect")
				}
			}
		}
		finished = true
	})
	if !x.Run() {
		return
	}
	if !finished && len(x.Res.Viol) == 0 {
		report("a0-no-reply", "the history did not finish: a request got no reply")
		report("b0-no-reply", "the history did not finish: a request got no reply")
	}
	if epilogue && finished {
		destroyed := map[*go9p.SrvFid]int{}
		var shown []*go9p.SrvFid
		seen := map[*go9p.SrvFid]bool{}
		for _, in := range fs.Log {
			if in.Op == "fiddestroy" {
				destroyed[in.FidP]++
				continue
			}
			for _, fp := range []*go9p.SrvFid{in.FidP, in.NewfidP, in.AfidP} {
				if fp != nil && !seen[fp] {
					seen[fp] = true
					shown = append(shown, fp)
				}
			}
		}
		for _, fp := range shown {
			if destroyed[fp] != 1 {
				report("a5-destroy-count", "after the client left, a fid the implementation had been shown was reported destroyed %d times (want exactly once)", destroyed[fp])
				break
			}
		}
		x.Probe("disconnect-epilogue")
	}
	x.FaultN("seg-split", sys.Conns[0].Srv.In.Splits+sys.Conns[0].Clnt.In.Splits)
}

func isErrFor(typ uint8, isErr bool) bool {
	// Tremove invalidates whatever the reply; everything else only on success
	if typ == Tremove {
		return false
	}
	return isErr
}

func refuseWhy(v mVerdict) string {
	if v.refuse != "" {
		return v.refuse
	}
	return "protocol rule"
}

func invNames(is []*Inv) string {
	if len(is) == 0 {
		return "nothing"
	}
	var s []string
	for _, i := range is {
		s = append(s, i.Op)
	}
	return strings.Join(s, ",")
}

// argsMismatch compares what the implementation saw with what the client sent.
func argsMismatch(in *Inv, m *Msg) string {
	tc := in.Req.Tc
	switch in.Op {
	case "walk":
		if tc.Newfid != m.Newfid || strings.Join(tc.Wname, "/") != strings.Join(m.Wname, "/") {
			return fmt.Sprintf("walk forwarded with newfid %d names %q", tc.Newfid, tc.Wname)
		}
	case "open":
		if tc.Mode != m.Mode {
			return fmt.Sprintf("open forwarded with mode %d, client sent %d", tc.Mode, m.Mode)
		}
	case "create":
		if tc.Mode != m.Mode || tc.Perm != m.Perm || tc.Name != m.Name {
			return fmt.Sprintf("create forwarded with name %q perm %#x mode %d", tc.Name, tc.Perm, tc.Mode)
		}
	case "read":
		if tc.Offset != m.Offset || tc.Count != m.Count {
			return fmt.Sprintf("read forwarded with offset %d count %d", tc.Offset, tc.Count)
		}
	case "write":
		if tc.Offset != m.Offset || tc.Count != m.Count || !bytes.Equal(tc.Data, m.Data) {
			return fmt.Sprintf("write forwarded with offset %d count %d and %d bytes", tc.Offset, tc.Count, len(tc.Data))
		}
	case "wstat":
		if tc.Dir.Mode != m.Stat.Mode || tc.Dir.Mtime != m.Stat.Mtime || tc.Dir.Name != m.Stat.Name {
			return fmt.Sprintf("wstat forwarded with mode %#o mtime %d name %q", tc.Dir.Mode, tc.Dir.Mtime, tc.Dir.Name)
		}
	case "attach":
		if tc.Aname != m.Aname {
			return fmt.Sprintf("attach forwarded with aname %q", tc.Aname)
		}
	}
	if tc.Fid != m.Fid && in.Op != "authinit" {
		return fmt.Sprintf("%s forwarded with fid %d, client named %d", in.Op, tc.Fid, m.Fid)
	}
	return ""
}
