package h

// ScriptFS: a scripted SrvReqOps implementation (DESIGN.md §3.5). Every
// callback is appended to the invocation log; what to answer, when and how
// often is decided per request by the property's PlanFor function.

import (
	"errors"
	"fmt"
	"strings"
	"sync"
	"unsafe"

	"github.com/rminnich/go9p"
	"github.com/rminnich/go9p/vsim/rt"
)

const (
	PNow       = iota // answer inside the callback
	PHold             // park inside the callback until released, then answer
	PAfter            // return from the callback, answer later from another goroutine
	PAsync            // like PAfter but parked until released
	PTwice            // answer, then answer again with different content
	PTwiceLate        // answer; a second answer arrives later from another goroutine
	PNever            // never answer (only with a flush that cancels)
)

type Plan struct {
	Mode  int
	Err   bool
	QType uint8 // qid type for attach / last walk element / create / open
	NWqid int   // walk: qids to return (-1: all names)
	NData int   // read: bytes to return (-1: as many as asked)
	// FlushOp behaviour when this request is the *target* of a flush seen by the implementation
	OnFlush     int  // 0 ignore, 1 req.Flush(), 2 answer the target now
	SecondErr   bool // the second (duplicate) answer is an Rerror
	StatNameLen int  // >0: Rstat name padded to this length
	ErrLen      int  // >0: error text padded to this length
}

type Inv struct {
	Seq             int
	Step            int
	Op              string
	Conn            int
	Tag             uint16
	TcType          uint8
	Fid             uint32
	Newfid          uint32
	Afid            uint32
	FidP            *go9p.SrvFid
	NewfidP         *go9p.SrvFid
	AfidP           *go9p.SrvFid
	User            int
	Args            string
	Key             string
	Req             *go9p.SrvReq
	Plan            *Plan
	Held            bool
	Released        bool
	AnsSteps        []int
	Expect          *Msg
	Expect2         *Msg
	data            []byte
	dataHash        uint64
	Uniq            uint64
	Flushed         bool // implementation called req.Flush() for it
	answeredByFlush bool
	FidType         uint8 // type of the fid when the implementation was entered
	hb              uint64
	autoAt          int // >0: a parked call wakes up by itself once the step counter reaches this (release in the middle of activity, not only at quiescence)
}

type sUser struct {
	id   int
	name string
}

func (u *sUser) Name() string               { return u.name }
func (u *sUser) Id() int                    { return u.id }
func (u *sUser) Groups() []go9p.Group       { return nil }
func (u *sUser) IsMember(g go9p.Group) bool { return false }

type sGroup struct{ id int }

func (g *sGroup) Name() string         { return fmt.Sprintf("g%d", g.id) }
func (g *sGroup) Id() int              { return g.id }
func (g *sGroup) Members() []go9p.User { return nil }

// sUsers knows uids 0..3 ("u0".."u3"); everybody else is unknown.
type sUsers struct{ users [4]*sUser }

func newSUsers() *sUsers {
	u := &sUsers{}
	for i := range u.users {
		u.users[i] = &sUser{i, fmt.Sprintf("u%d", i)}
	}
	return u
}

func (u *sUsers) Uid2User(uid int) go9p.User {
	if uid >= 0 && uid < len(u.users) {
		return u.users[uid]
	}
	return nil
}

func (u *sUsers) Uname2User(n string) go9p.User {
	for _, x := range u.users {
		if x.name == n {
			return x
		}
	}
	return nil
}
func (u *sUsers) Gid2Group(gid int) go9p.Group    { return &sGroup{gid} }
func (u *sUsers) Gname2Group(n string) go9p.Group { return nil }

type connIdx struct {
	c   *go9p.Conn
	idx int
}

type ScriptFS struct {
	x       *Ctx
	Log     []*Inv
	conns   []connIdx // slices, not maps: see case.go on the race detector
	NConn   int
	PlanFor func(inv *Inv) *Plan
	// authentication script
	AuthInitErr  func(inv *Inv) bool
	AuthCheckErr func(inv *Inv) bool
	AuthHold     func(inv *Inv) bool // park this AuthRead / AuthWrite until released
	DestroyHold  func(inv *Inv) bool // park this FidDestroy until released
	FlushHold    func(inv *Inv) bool // park this FlushOp.Flush call until released
	Dotu         func(conn int) bool // negotiated dialect per connection, for expected replies
	// flush hook: called when the implementation's Flush sees target
	flushes      []*Inv
	pendingFlush []*go9p.SrvReq
	authErrNext  bool // the authentication callback of the request in flight must refuse
	AutoRelease  bool // parked calls may wake up by themselves after a drawn number of steps
	FlushAlways  bool // the Flush hook cancels (req.Flush()) whatever it is shown, also a request it has not seen yet
	// cfg "sharedir": like a file server that keeps one description per file (the library's own Fsrv does), every
	// Tstat is answered from the same long-lived Dir, whatever the connection and its dialect
	sharedDir *go9p.Dir
	// cfg "dispatcher": late answers (PAsync) are given by one event-loop goroutine of the implementation
	dq          []*Inv
	dqMu        sync.Mutex
	dispStarted bool
}

func NewScriptFS(x *Ctx) *ScriptFS {
	return &ScriptFS{x: x}
}

func userID(f *go9p.SrvFid) int {
	if f == nil || f.User == nil {
		return -1
	}
	return f.User.Id()
}

func fnvBytes(b []byte) uint64 {
	h := uint64(14695981039346656037)
	for _, c := range b {
		h ^= uint64(c)
		h *= 1099511628211
	}
	return h
}

func (f *ScriptFS) connIdx(c *go9p.Conn) int {
	for _, ci := range f.conns {
		if ci.c == c {
			return ci.idx
		}
	}
	return -1
}

func (f *ScriptFS) newInv(op string, req *go9p.SrvReq) *Inv {
	tc := req.Tc
	inv := &Inv{Seq: len(f.Log), Step: rt.Step(), Op: op, Conn: f.connIdx(req.Conn), Tag: tc.Tag, TcType: tc.Type,
		Fid: tc.Fid, Newfid: tc.Newfid, Afid: tc.Afid, FidP: req.Fid, NewfidP: req.Newfid, AfidP: req.Afid, User: userID(req.Fid), Req: req}
	switch op {
	case "attach":
		inv.Args = fmt.Sprintf("uname=%q aname=%q afid=%d", tc.Uname, tc.Aname, tc.Afid)
	case "walk":
		inv.Args = fmt.Sprintf("newfid=%d names=%q", tc.Newfid, tc.Wname)
	case "open":
		inv.Args = fmt.Sprintf("mode=%d", tc.Mode)
	case "create":
		inv.Args = fmt.Sprintf("name=%q perm=%#x mode=%d ext=%q", tc.Name, tc.Perm, tc.Mode, tc.Ext)
	case "read":
		inv.Args = fmt.Sprintf("offset=%d count=%d", tc.Offset, tc.Count)
	case "write":
		inv.data = tc.Data
		inv.dataHash = fnvBytes(tc.Data)
		inv.Args = fmt.Sprintf("offset=%d count=%d hash=%x", tc.Offset, tc.Count, inv.dataHash)
	case "wstat":
		d := &tc.Dir
		inv.Args = fmt.Sprintf("name=%q mode=%#x length=%d mtime=%d uid=%q gid=%q", d.Name, d.Mode, d.Length, d.Mtime, d.Uid, d.Gid)
	}
	if req.Fid != nil {
		inv.FidType = req.Fid.Type
	}
	inv.Key = fmt.Sprintf("%d/%d/%d/%d", inv.Conn, tc.Type, tc.Fid, tc.Offset)
	inv.Uniq = splitmix(uint64(inv.Conn+1)<<48 ^ uint64(tc.Tag)<<32 ^ uint64(inv.Seq)<<8 ^ uint64(tc.Type))
	f.Log = append(f.Log, inv)
	// a real implementation records the request in a table under its own lock,
	// where its Flush handler finds it: publish that edge to the race detector
	rt.HBRelease(unsafe.Pointer(&inv.hb))
	return inv
}

func (f *ScriptFS) isPendingFlush(r *go9p.SrvReq) bool {
	for _, q := range f.pendingFlush {
		if q == r {
			return true
		}
	}
	return false
}

func (f *ScriptFS) plan(inv *Inv) *Plan {
	var p *Plan
	if f.PlanFor != nil {
		p = f.PlanFor(inv)
	}
	if p == nil {
		p = &Plan{NWqid: -1, NData: -1, QType: 0}
	}
	inv.Plan = p
	return p
}

// expected builds the reply the implementation is about to give, as a
// harness message (tag filled in by the checker), and gives it through the
// library's Respond* API. variant 1 is the (different) second answer.
func (f *ScriptFS) answer(inv *Inv, variant int) {
	req, p := inv.Req, inv.Plan
	tc := req.Tc
	u := inv.Uniq + uint64(variant)*0x1234567
	if variant == 0 && len(inv.AnsSteps) > 0 {
		return // already answered (by the flush hook): the script answers once unless told otherwise
	}
	inv.AnsSteps = append(inv.AnsSteps, rt.Step())
	var m *Msg
	if inv.Op == "write" && fnvBytes(inv.data) != inv.dataHash {
		f.x.Violate("payload-disturbed", "Twrite payload (conn %d tag %d offset %d) changed between arrival and the implementation's answer", inv.Conn, inv.Tag, tc.Offset)
	}
	if (p.Err && variant == 0) || (p.SecondErr && variant == 1) {
		txt := fmt.Sprintf("scripted error %x", u&0xFFFFFF)
		for len(txt) < p.ErrLen {
			txt += "e"
		}
		m = &Msg{Type: Rerror, Ename: txt, Errno: uint32(u>>24) & 0xFFFF}
		if u%5 == 3 {
			m.Errno = 0 // an error without a number (relayed from a plain 9P2000 back end, say)
		}
		f.setExpect(inv, variant, m)
		req.RespondError(&go9p.Error{Err: txt, Errornum: m.Errno})
		return
	}
	switch inv.Op {
	case "attach":
		q := go9p.Qid{Type: p.QType, Version: uint32(u), Path: u >> 8}
		m = &Msg{Type: Rattach, Qid: Qid{q.Type, q.Version, q.Path}}
		f.setExpect(inv, variant, m)
		req.RespondRattach(&q)
	case "walk":
		n := len(tc.Wname)
		if p.NWqid >= 0 && p.NWqid < n {
			n = p.NWqid
		}
		qs := make([]go9p.Qid, n)
		m = &Msg{Type: Rwalk}
		for i := range qs {
			t := uint8(go9p.QTDIR)
			if i == n-1 {
				t = p.QType // the last element reached may be a file, also when the walk stops early
			}
			qs[i] = go9p.Qid{Type: t, Version: uint32(i), Path: u + uint64(i)}
			m.Wqid = append(m.Wqid, Qid{t, uint32(i), u + uint64(i)})
		}
		f.setExpect(inv, variant, m)
		req.RespondRwalk(qs)
	case "open":
		q := go9p.Qid{Type: inv.FidType, Version: 7, Path: u}
		m = &Msg{Type: Ropen, Qid: Qid{q.Type, 7, u}, Iounit: uint32(u>>40) & 0xFFFF}
		f.setExpect(inv, variant, m)
		req.RespondRopen(&q, m.Iounit)
	case "create":
		q := go9p.Qid{Type: p.QType, Version: 9, Path: u}
		m = &Msg{Type: Rcreate, Qid: Qid{q.Type, 9, u}, Iounit: uint32(u>>40) & 0xFFFF}
		f.setExpect(inv, variant, m)
		req.RespondRcreate(&q, m.Iounit)
	case "read":
		n := int(tc.Count)
		if p.NData >= 0 && p.NData < n {
			n = p.NData
		}
		d := pattern(n, u, tc.Offset, uint64(tc.Fid))
		m = &Msg{Type: Rread, Count: uint32(n), Data: d}
		f.setExpect(inv, variant, m)
		req.RespondRread(d)
	case "write":
		c := uint32(u) % (tc.Count + 1)
		m = &Msg{Type: Rwrite, Count: c}
		f.setExpect(inv, variant, m)
		req.RespondRwrite(c)
	case "clunk":
		m = &Msg{Type: Rclunk}
		f.setExpect(inv, variant, m)
		req.RespondRclunk()
	case "remove":
		m = &Msg{Type: Rremove}
		f.setExpect(inv, variant, m)
		req.RespondRremove()
	case "stat":
		if f.x.C.cfg("sharedir") != 0 && p.StatNameLen == 0 {
			f.dqMu.Lock() // (real mutex: whoever made the Dir happens-before whoever uses it, as in a real implementation)
			if f.sharedDir == nil {
				f.sharedDir = &go9p.Dir{Type: 7, Dev: 9, Qid: go9p.Qid{Type: 0, Version: 1, Path: 4242}, Mode: 0o644, Atime: 5, Mtime: 6, Length: 77,
					Name: "kept-by-the-file-server", Uid: "uid", Gid: "gid", Muid: "muid", Ext: "", Uidnum: 1, Gidnum: 2, Muidnum: 3}
			}
			f.dqMu.Unlock()
			m = &Msg{Type: Rstat, Stat: Stat{Type: 7, Dev: 9, Qid: Qid{0, 1, 4242}, Mode: 0o644, Atime: 5, Mtime: 6, Length: 77,
				Name: "kept-by-the-file-server", Uid: "uid", Gid: "gid", Muid: "muid", Nuid: 1, Ngid: 2, Nmuid: 3}}
			f.setExpect(inv, variant, m)
			req.RespondRstat(f.sharedDir)
			return
		}
		name := fmt.Sprintf("n%06x", u&0xFFFFFF)
		for len(name) < p.StatNameLen {
			name += "s"
		}
		d := &go9p.Dir{Type: uint16(u), Dev: uint32(u >> 16), Qid: go9p.Qid{Type: inv.FidType, Version: 1, Path: u}, Mode: 0o644, Atime: 5, Mtime: uint32(u >> 3),
			Length: u >> 20, Name: name, Uid: "uid", Gid: "gid", Muid: "muid", Ext: "", Uidnum: 1, Gidnum: 2, Muidnum: 3}
		m = &Msg{Type: Rstat, Stat: Stat{Type: d.Type, Dev: d.Dev, Qid: Qid{d.Qid.Type, 1, u}, Mode: d.Mode, Atime: 5, Mtime: d.Mtime, Length: d.Length,
			Name: d.Name, Uid: "uid", Gid: "gid", Muid: "muid", Nuid: 1, Ngid: 2, Nmuid: 3}}
		f.setExpect(inv, variant, m)
		req.RespondRstat(d)
	case "wstat":
		m = &Msg{Type: Rwstat}
		f.setExpect(inv, variant, m)
		req.RespondRwstat()
	}
}

func (f *ScriptFS) setExpect(inv *Inv, variant int, m *Msg) {
	if variant == 0 && inv.Expect == nil {
		inv.Expect = m
	} else if inv.Expect2 == nil {
		inv.Expect2 = m
	}
}

func (f *ScriptFS) released(inv *Inv) bool {
	return inv.Released || (inv.autoAt > 0 && f.x.S.Steps >= inv.autoAt)
}

func (f *ScriptFS) dispatch(op string, req *go9p.SrvReq) {
	inv := f.newInv(op, req)
	p := f.plan(inv)
	if f.AutoRelease && (p.Mode == PHold || p.Mode == PAsync || p.Mode == PTwiceLate) && rt.Choose(2) == 0 {
		inv.autoAt = rt.Step() + 1 + rt.Choose(400)
		f.x.Fault("hold-released-mid-activity")
	}
	if f.isPendingFlush(req) && p.OnFlush != 0 {
		// the framework told us to flush this request before handing it to us
		switch p.OnFlush {
		case 1:
			inv.Flushed = true
			f.x.Fault("flushop-cancel")
			req.Flush()
		case 2:
			f.x.Fault("flushop-answer")
			f.answer(inv, 0)
		}
		return
	}
	switch p.Mode {
	case PNow:
		f.answer(inv, 0)
	case PHold:
		inv.Held = true
		f.x.Fault("hold")
		rt.YieldUntil(rt.SiteHold, func() bool { return f.released(inv) })
		inv.Held = false
		if inv.answeredByFlush {
			return
		}
		f.answer(inv, 0)
	case PAfter:
		f.x.Fault("late-respond")
		rt.Go(rt.SiteSpawn, func() {
			rt.SetName("late-answer")
			f.answer(inv, 0)
		})
	case PAsync:
		inv.Held = true
		f.x.Fault("async-respond")
		rt.Go(rt.SiteSpawn, func() {
			rt.SetName("async-answer")
			rt.YieldUntil(rt.SiteHold, func() bool { return f.released(inv) })
			inv.Held = false
			if inv.answeredByFlush {
				return
			}
			if f.x.C.cfg("dispatcher") != 0 {
				// an implementation with an event loop: one goroutine of its own gives all the late answers
				// (a real mutex, never contended: the race detector must see the hand-over an implementation's queue gives)
				f.dqMu.Lock()
				f.dq = append(f.dq, inv)
				f.dqMu.Unlock()
				if !f.dispStarted {
					f.dispStarted = true
					rt.Go(rt.SiteSpawn, func() {
						rt.SetName("implementation-event-loop")
						for {
							rt.YieldUntil(rt.SiteHold, func() bool {
								f.dqMu.Lock()
								defer f.dqMu.Unlock()
								return len(f.dq) > 0
							})
							f.dqMu.Lock()
							next := f.dq[0]
							f.dq = f.dq[1:]
							f.dqMu.Unlock()
							f.answer(next, 0)
						}
					})
				}
				return
			}
			f.answer(inv, 0)
		})
	case PTwice:
		f.x.Fault("double-respond")
		f.answer(inv, 0)
		f.answer(inv, 1)
	case PTwiceLate:
		f.x.Fault("double-respond")
		f.answer(inv, 0)
		inv.Held = true
		rt.Go(rt.SiteSpawn, func() {
			rt.SetName("second-answer")
			rt.YieldUntil(rt.SiteHold, func() bool { return f.released(inv) })
			inv.Held = false
			f.answer(inv, 1)
		})
	case PNever:
		f.x.Fault("never-respond")
	}
}

func (f *ScriptFS) Attach(r *go9p.SrvReq) { f.dispatch("attach", r) }
func (f *ScriptFS) Walk(r *go9p.SrvReq)   { f.dispatch("walk", r) }
func (f *ScriptFS) Open(r *go9p.SrvReq)   { f.dispatch("open", r) }
func (f *ScriptFS) Create(r *go9p.SrvReq) { f.dispatch("create", r) }
func (f *ScriptFS) Read(r *go9p.SrvReq)   { f.dispatch("read", r) }
func (f *ScriptFS) Write(r *go9p.SrvReq)  { f.dispatch("write", r) }
func (f *ScriptFS) Clunk(r *go9p.SrvReq)  { f.dispatch("clunk", r) }
func (f *ScriptFS) Remove(r *go9p.SrvReq) { f.dispatch("remove", r) }
func (f *ScriptFS) Stat(r *go9p.SrvReq)   { f.dispatch("stat", r) }
func (f *ScriptFS) Wstat(r *go9p.SrvReq)  { f.dispatch("wstat", r) }

func (f *ScriptFS) ConnOpened(c *go9p.Conn) {
	// the simulated transport names the server end "srv<N>"
	idx := -1
	fmt.Sscanf(c.LocalAddr().String(), "srv%d", &idx) // (not c.Id: the remote address need not tell connections apart)
	f.conns = append(f.conns, connIdx{c, idx})
	f.Log = append(f.Log, &Inv{Seq: len(f.Log), Step: rt.Step(), Op: "connopened", Conn: idx})
	f.NConn++
}

func (f *ScriptFS) ConnClosed(c *go9p.Conn) {
	f.Log = append(f.Log, &Inv{Seq: len(f.Log), Step: rt.Step(), Op: "connclosed", Conn: f.connIdx(c)})
}

func (f *ScriptFS) FidDestroy(fid *go9p.SrvFid) {
	ci := -1
	if fid != nil {
		ci = f.connIdx(fid.Fconn)
	}
	inv := &Inv{Seq: len(f.Log), Step: rt.Step(), Op: "fiddestroy", Conn: ci, FidP: fid, User: userID(fid)}
	f.Log = append(f.Log, inv)
	if f.DestroyHold != nil && f.DestroyHold(inv) {
		// an implementation that is slow to let go of a fid
		inv.Held = true
		f.x.Fault("hold")
		rt.YieldUntil(rt.SiteHold, func() bool { return f.released(inv) })
		inv.Held = false
	}
}

// Held returns the invocations currently parked (sorted by sequence).
func (f *ScriptFS) HeldInvs() []*Inv {
	var hs []*Inv
	for _, i := range f.Log {
		if i.Held && !f.released(i) {
			hs = append(hs, i)
		}
	}
	return hs
}

// ByKey finds the invocations of request operations for a key, in order.
func (f *ScriptFS) ByKey(key string) []*Inv {
	var is []*Inv
	for _, i := range f.Log {
		if i.Key == key && i.Req != nil {
			is = append(is, i)
		}
	}
	return is
}

func (f *ScriptFS) Ops() string {
	var b strings.Builder
	for _, i := range f.Log {
		fmt.Fprintf(&b, "%d:%s/c%d/t%d ", i.Step, i.Op, i.Conn, i.Tag)
	}
	return b.String()
}

// --- optional interfaces, provided by wrapper types ---

type fsFlush struct{ *ScriptFS }

func (f fsFlush) Flush(target *go9p.SrvReq) { f.ScriptFS.onFlush(target) }

type fsAuth struct{ *ScriptFS }
type fsAuthFlush struct{ *ScriptFS }

func (f fsAuthFlush) Flush(target *go9p.SrvReq) { f.ScriptFS.onFlush(target) }

func (f *ScriptFS) onFlush(target *go9p.SrvReq) {
	var ti *Inv
	for i := len(f.Log) - 1; i >= 0; i-- {
		if f.Log[i].Req == target {
			ti = f.Log[i]
			break
		}
	}
	inv := &Inv{Seq: len(f.Log), Step: rt.Step(), Op: "flush", Conn: f.connIdx(target.Conn), Tag: target.Tc.Tag, TcType: target.Tc.Type, Req: nil}
	f.Log = append(f.Log, inv)
	if ti != nil {
		rt.HBAcquire(unsafe.Pointer(&ti.hb))
	}
	if f.FlushHold != nil && f.FlushHold(inv) {
		// an implementation whose Flush takes its time
		inv.Held = true
		f.x.Fault("hold")
		rt.YieldUntil(rt.SiteHold, func() bool { return f.released(inv) })
		inv.Held = false
	}
	if (ti == nil || ti.Plan == nil) && f.FlushAlways {
		// an implementation that cancels unconditionally, as the FlushOp documentation suggests
		f.x.Fault("flushop-cancel-unseen")
		f.pendingFlush = append(f.pendingFlush, target)
		target.Flush()
		return
	}
	if ti == nil || ti.Plan == nil {
		f.pendingFlush = append(f.pendingFlush, target)
		f.x.Probe("flushop-called-before-implementation-saw-the-request")
		return
	}
	switch ti.Plan.OnFlush {
	case 1:
		ti.Flushed = true
		f.x.Fault("flushop-cancel")
		target.Flush()
	case 2:
		if len(ti.AnsSteps) == 0 {
			f.x.Fault("flushop-answer")
			ti.Released = true // the parked callback wakes up and returns without answering
			f.answerFromFlush(ti)
		}
	}
}

func (f *ScriptFS) answerFromFlush(ti *Inv) {
	// answer the target from the flusher's goroutine; the parked callback (if
	// any) wakes up and returns without answering.
	ti.answeredByFlush = true
	f.answer(ti, 0)
}

func (f *ScriptFS) authInv(op string, afid *go9p.SrvFid, args string) *Inv {
	inv := &Inv{Seq: len(f.Log), Step: rt.Step(), Op: op, FidP: afid, User: userID(afid), Args: args}
	if afid != nil {
		inv.Conn = f.connIdx(afid.Fconn)
	}
	f.Log = append(f.Log, inv)
	return inv
}

func (f *ScriptFS) authInit(afid *go9p.SrvFid, aname string) (*go9p.Qid, error) {
	inv := f.authInv("authinit", afid, fmt.Sprintf("aname=%q", aname))
	if f.AuthInitErr != nil && f.AuthInitErr(inv) {
		if inv.Seq%2 == 1 {
			return nil, errors.New("scripted authinit refusal")
		}
		return nil, &go9p.Error{Err: "scripted authinit refusal", Errornum: 13}
	}
	return &go9p.Qid{Type: go9p.QTAUTH, Version: 1, Path: 0xA000 + uint64(inv.Seq)}, nil
}

func (f *ScriptFS) authCheck(fid, afid *go9p.SrvFid, aname string) error {
	inv := f.authInv("authcheck", afid, fmt.Sprintf("aname=%q", aname))
	inv.NewfidP = fid
	if f.AuthCheckErr != nil && f.AuthCheckErr(inv) {
		if inv.Seq%2 == 1 {
			return errors.New("scripted authcheck refusal") // an authentication module's own error, not a 9P one
		}
		return &go9p.Error{Err: "scripted authcheck refusal", Errornum: 13}
	}
	return nil
}

func (f *ScriptFS) authHold(inv *Inv) {
	if f.AuthHold != nil && f.AuthHold(inv) {
		inv.Held = true
		f.x.Fault("hold")
		rt.YieldUntil(rt.SiteHold, func() bool { return f.released(inv) })
		inv.Held = false
	}
}

func (f *ScriptFS) authRead(afid *go9p.SrvFid, off uint64, data []byte) (int, error) {
	f.authHold(f.authInv("authread", afid, fmt.Sprintf("offset=%d count=%d", off, len(data))))
	for i := range data {
		data[i] = byte(off) + byte(i)
	}
	return len(data), nil
}

func (f *ScriptFS) authWrite(afid *go9p.SrvFid, off uint64, data []byte) (int, error) {
	f.authHold(f.authInv("authwrite", afid, fmt.Sprintf("offset=%d count=%d hash=%x", off, len(data), fnvBytes(data))))
	return len(data), nil
}

func (f fsAuth) AuthInit(a *go9p.SrvFid, n string) (*go9p.Qid, error)     { return f.authInit(a, n) }
func (f fsAuth) AuthDestroy(a *go9p.SrvFid)                               { f.authInv("authdestroy", a, "") }
func (f fsAuth) AuthCheck(fid, a *go9p.SrvFid, n string) error            { return f.authCheck(fid, a, n) }
func (f fsAuth) AuthRead(a *go9p.SrvFid, o uint64, d []byte) (int, error) { return f.authRead(a, o, d) }
func (f fsAuth) AuthWrite(a *go9p.SrvFid, o uint64, d []byte) (int, error) {
	return f.authWrite(a, o, d)
}
func (f fsAuthFlush) AuthInit(a *go9p.SrvFid, n string) (*go9p.Qid, error) { return f.authInit(a, n) }
func (f fsAuthFlush) AuthDestroy(a *go9p.SrvFid)                           { f.authInv("authdestroy", a, "") }
func (f fsAuthFlush) AuthCheck(fid, a *go9p.SrvFid, n string) error        { return f.authCheck(fid, a, n) }
func (f fsAuthFlush) AuthRead(a *go9p.SrvFid, o uint64, d []byte) (int, error) {
	return f.authRead(a, o, d)
}
func (f fsAuthFlush) AuthWrite(a *go9p.SrvFid, o uint64, d []byte) (int, error) {
	return f.authWrite(a, o, d)
}

// Ops returns the value to hand to Srv.Start for the requested optional interfaces.
// the same four shapes with the optional request hooks
type fsHook struct{ *ScriptFS }
type fsFlushHook struct{ fsFlush }
type fsAuthHook struct{ fsAuth }
type fsAuthFlushHook struct{ fsAuthFlush }

func (f *ScriptFS) hookProcess(r *go9p.SrvReq) {
	f.x.Probe("request-hook-called")
	r.Process()
}

func (f fsHook) SrvReqProcess(r *go9p.SrvReq)          { f.hookProcess(r) }
func (f fsHook) SrvReqRespond(r *go9p.SrvReq)          { r.PostProcess() }
func (f fsFlushHook) SrvReqProcess(r *go9p.SrvReq)     { f.hookProcess(r) }
func (f fsFlushHook) SrvReqRespond(r *go9p.SrvReq)     { r.PostProcess() }
func (f fsAuthHook) SrvReqProcess(r *go9p.SrvReq)      { f.hookProcess(r) }
func (f fsAuthHook) SrvReqRespond(r *go9p.SrvReq)      { r.PostProcess() }
func (f fsAuthFlushHook) SrvReqProcess(r *go9p.SrvReq) { f.hookProcess(r) }
func (f fsAuthFlushHook) SrvReqRespond(r *go9p.SrvReq) { r.PostProcess() }

func (f *ScriptFS) OpsValue(auth, flush bool) interface{} {
	if f.x.C.cfg("prochook") != 0 {
		switch {
		case auth && flush:
			return fsAuthFlushHook{fsAuthFlush{f}}
		case auth:
			return fsAuthHook{fsAuth{f}}
		case flush:
			return fsFlushHook{fsFlush{f}}
		}
		return fsHook{f}
	}
	switch {
	case auth && flush:
		return fsAuthFlush{f}
	case auth:
		return fsAuth{f}
	case flush:
		return fsFlush{f}
	}
	return f
}

// SrvSys is a go9p server under simulation with raw client peers.
type SrvSys struct {
	x     *Ctx
	Srv   *go9p.Srv
	FS    *ScriptFS
	Conns []*SConn
}

type SConn struct {
	Idx  int
	Srv  *rt.Conn // server end
	Clnt *rt.Conn // client end
	Peer *ClntPeer
	Host *rt.G // goroutine that called NewConn: the connection's goroutines descend from it
}

func NewSrvSys(x *Ctx, ops interface{}, fs *ScriptFS, msize uint32, dotu bool, maxpend int, debug int) *SrvSys {
	srv := &go9p.Srv{Msize: msize, Dotu: dotu, Debuglevel: debug, Maxpend: maxpend, Upool: newSUsers(), Id: "sim"}
	if debug != 0 && x.C.Seed%2 == 0 {
		srv.Log = go9p.NewLogger(64) // (the other half of the cases leaves the logger to the server, as most programs do)
	}
	if !srv.Start(ops) {
		x.Trouble("Srv.Start refused the scripted implementation")
	}
	return &SrvSys{x: x, Srv: srv, FS: fs}
}

// AddConn creates a connection; the server side is started by a host
// goroutine when the scheduler runs it.
func (s *SrvSys) AddConn(capacity int, seg int) *SConn {
	cs, cc := rt.NewPipePair(0, fmt.Sprintf("srv%d", len(s.Conns)), fmt.Sprintf("clnt%d", len(s.Conns)))
	cs.Out.Cap = capacity // server -> client back-pressure
	cs.SameRemote = s.x.C.cfg("sameaddr") != 0
	cs.In.Seg = seg
	cc.In.Seg = seg
	sc := &SConn{Idx: len(s.Conns), Srv: cs, Clnt: cc, Peer: NewClntPeer(s.x, cc)}
	s.Conns = append(s.Conns, sc)
	started := false
	sc.Host = rt.Go(rt.SiteSpawn, func() {
		rt.SetName(fmt.Sprintf("connhost%d", sc.Idx))
		s.Srv.NewConn(cs)
		started = true
	})
	_ = started
	sc.Peer.StartReader()
	return sc
}
