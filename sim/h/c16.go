package h

// C16 — Ufs names and metadata mirror the exported tree (DESIGN.md §4 C16).

import (
	"fmt"
	"os"
	"path/filepath"
	"strings"
	"syscall"

	"github.com/rminnich/go9p"
	"github.com/rminnich/go9p/vsim/rt"
)

func init() { register(&Property{ID: "C16", Gen: c16Gen, Exec: c16Exec}) }

func c16Gen(seed uint64, run int, tier string) *Case {
	r := NewRand(seed)
	c := &Case{Cfg: map[string]int64{}}
	genCommon(r, c.Cfg)
	if c.Cfg["seg"] == rt.SegOne || c.Cfg["seg"] == rt.SegTiny {
		c.Cfg["seg"] = rt.SegRandom
	}
	c.Cfg["maxsteps"] = 3000000
	c.Cfg["msize"] = int64(r.Pick(8192, 16384, 65536))
	c.Cfg["dotu"] = int64(r.Intn(2))
	c.Cfg["printdbg"] = int64(r.Pick(0, 0, 0, 1)) // the server traces every message (to nowhere)
	c.Cfg["entries"] = int64(r.Range(5, 40))
	c.Cfg["depth"] = int64(r.Pick(3, 8, 40))
	c.Cfg["nwalks"] = int64(r.Range(10, 40))
	c.Cfg["client"] = int64(run % 3 / 2) // every third run uses the client's path helpers
	c.Stratum = "raw-walks"
	if c.Cfg["client"] == 1 {
		c.Stratum = "client-paths"
	}
	return c
}

// lstatPrefix returns how many leading elements of names exist below base.
func lstatPrefix(base string, names []string) int {
	p := base
	for i, n := range names {
		p = p + "/" + n
		if _, err := os.Lstat(p); err != nil {
			return i
		}
	}
	return len(names)
}

// qid paths seen in the current run, per file (inode) and back
var c16QidOf, c16InoOf map[uint64]uint64

func c16CheckStat(x *Ctx, st *Stat, q *Qid, path string, dotu bool, what string) {
	fi, err := os.Lstat(path)
	if err != nil {
		return
	}
	sys := fi.Sys().(*syscall.Stat_t)
	// the statement asks for a qid path that is equal for the same file and different for different coexisting
	// files, not for a particular value: the first path seen for a file is remembered, and vice versa
	qidOK := func(path uint64) bool {
		if p, ok := c16QidOf[sys.Ino]; ok && p != path {
			return false
		}
		if ino, ok := c16InoOf[path]; ok && ino != sys.Ino {
			return false
		}
		c16QidOf[sys.Ino], c16InoOf[path] = path, sys.Ino
		return true
	}
	if q != nil {
		if !qidOK(q.Path) {
			x.Violate("w5-qid-path", "%s: qid path %d for the file with inode %d; earlier replies gave that file the path %d, and the path %d to the file with inode %d", what, q.Path, sys.Ino, c16QidOf[sys.Ino], q.Path, c16InoOf[q.Path])
		}
		if (q.Type&0x80 != 0) != fi.IsDir() || (q.Type&0x02 != 0) != (fi.Mode()&os.ModeSymlink != 0) {
			x.Violate("w5-qid-type", "%s: qid type %#x for an object with mode %v", what, q.Type, fi.Mode())
		}
	}
	if st == nil {
		return
	}
	base := filepath.Base(path)
	if st.Name != base {
		x.Violate("w6-stat-name", "%s: stat name %q, the file is called %q", what, st.Name, base)
	}
	if st.Mode&0o777 != uint32(fi.Mode().Perm()) {
		x.Violate("w6-stat-mode", "%s: stat permission bits %o, the file has %o", what, st.Mode&0o777, fi.Mode().Perm())
	}
	if (st.Mode&0x80000000 != 0) != fi.IsDir() {
		x.Violate("w6-stat-mode", "%s: DMDIR bit %v for an object with mode %v", what, st.Mode&0x80000000 != 0, fi.Mode())
	}
	if dotu && (st.Mode&0x02000000 != 0) != (fi.Mode()&os.ModeSymlink != 0) {
		x.Violate("w6-stat-mode", "%s: DMSYMLINK bit %v for an object with mode %v", what, st.Mode&0x02000000 != 0, fi.Mode())
	}
	if !fi.IsDir() && st.Length != uint64(fi.Size()) {
		x.Violate("w6-stat-length", "%s: stat length %d, the file has %d bytes", what, st.Length, fi.Size())
	}
	if st.Mtime != uint32(fi.ModTime().Unix()) {
		x.Violate("w6-stat-mtime", "%s: stat mtime %d, the file's is %d", what, st.Mtime, fi.ModTime().Unix())
	}
	if !qidOK(st.Qid.Path) || (st.Qid.Type&0x80 != 0) != fi.IsDir() {
		x.Violate("w5-qid-path", "%s: qid inside the stat is %x/%d for the file with inode %d (dir=%v); earlier replies gave that file the path %d, and this path to the file with inode %d", what, st.Qid.Type, st.Qid.Path, sys.Ino, fi.IsDir(), c16QidOf[sys.Ino], c16InoOf[st.Qid.Path])
	}
	if (st.Qid.Type&0x02 != 0) != (fi.Mode()&os.ModeSymlink != 0) {
		// the qid's symlink bit is not dialect dependent (the mode's is: plain 9P2000 has no DMSYMLINK)
		x.Violate("w5-qid-type", "%s: qid type inside the stat is %#x for an object with mode %v", what, st.Qid.Type, fi.Mode())
	}
	if dotu && fi.Mode()&os.ModeSymlink != 0 {
		if t, _ := os.Readlink(path); st.Ext != t {
			x.Violate("w6-stat-ext", "%s: symlink target reported %q, it is %q", what, st.Ext, t)
		}
	}
}

func c16Exec(x *Ctx) {
	c := x.C
	c16QidOf, c16InoOf = map[uint64]uint64{}, map[uint64]uint64{}
	ms := uint32(c.cfg("msize"))
	dotu := c.cfg("dotu") != 0
	u := NewUfsSys(x, ms, true, 2, 0)
	if u == nil {
		return
	}
	defer u.Cleanup()
	r := NewRand(c.Seed ^ 0x7EE)
	tree := genTree(r, int(c.cfg("entries")), int(c.cfg("depth")), true)
	// one deliberately deep chain (20..40 levels, short names): the client's FWalk has to split it into several Twalks
	{
		rel := "chain"
		tree = append(tree, tEntry{Rel: rel, Kind: 'd'})
		for d := r.Range(20, 40); d > 0; d-- {
			rel += fmt.Sprintf("/l%d", d)
			tree = append(tree, tEntry{Rel: rel, Kind: 'd'})
		}
		tree = append(tree, tEntry{Rel: rel + "/leaf", Kind: 'f', Size: 33})
		// and a symbolic link to the chain: the same objects are reachable through the link
		tree = append(tree, tEntry{Rel: "chainlink", Kind: 'l', Target: "chain"})
		first := strings.SplitN(strings.TrimPrefix(rel, "chain/"), "/", 3)
		if len(first) >= 2 {
			tree = append(tree, tEntry{Rel: "chainlink/" + first[0], Kind: 'v'}, tEntry{Rel: "chainlink/" + first[0] + "/" + first[1], Kind: 'v'})
		}
	}
	if err := makeTree(u.Root, tree); err != nil {
		x.Trouble("tree: %v", err)
		return
	}
	// now and then a file is larger than 32 bits can say (sparse: it costs nothing)
	if r.Pct(30) {
		for _, e := range tree {
			if e.Kind == 'f' && r.Pct(40) {
				os.Truncate(filepath.Join(u.Root, e.Rel), int64(r.Pick(1<<32, 1<<32+77, 5<<30+1234, 1<<40+5)))
				x.Probe("file-of-4GiB-or-more")
				break
			}
		}
	}
	// give files distinguishable mtimes
	for i, e := range tree {
		if e.Kind == 'f' || e.Kind == 'd' {
			t := int64(1_500_000_000 + i*1000)
			syscall.UtimesNano(filepath.Join(u.Root, e.Rel), []syscall.Timespec{{Sec: t}, {Sec: t}})
		}
	}
	finished := false
	nw := int(c.cfg("nwalks"))
	if c.cfg("client") == 1 {
		rt.Go(rt.SiteSpawn, func() {
			rt.SetName("client")
			go9p.DefaultDebuglevel, go9p.DefaultLogger = 0, nil
			clnt, _, err := u.Mount(ms-24, dotu, int(c.cfg("seg")), "")
			if err != nil {
				x.Violate("w0-mount", "mount failed: %v", err)
				return
			}
			for ti, e := range tree {
				if e.Rel == "" || ti%7 == 3 {
					// the root itself, by its two spellings: resolving it must not disturb later look-ups
					rp := []string{"/", ""}[ti%2]
					if d, err := clnt.FStat(rp); err != nil {
						x.Violate("w7-client-path", "FStat(%q) of the root failed: %v", rp, err)
					} else if d.Qid.Type&0x80 == 0 {
						x.Violate("w7-client-path", "FStat(%q) of the root returned a qid that is not a directory's", rp)
					}
					x.Probe("client-resolves-the-root")
					if e.Rel == "" {
						continue
					}
				}
				p := e.Rel
				if r.Pct(30) {
					p = "/" + strings.ReplaceAll(p, "/", "//")
				}
				d, err := clnt.FStat(p)
				local := filepath.Join(u.Root, e.Rel)
				if _, lerr := os.Lstat(local); lerr != nil {
					continue
				}
				if err != nil {
					x.Violate("w7-client-path", "FStat(%q) (%d path elements) failed although the local path exists: %v", p, strings.Count(e.Rel, "/")+1, err)
					continue
				}
				st := &Stat{Type: d.Type, Dev: d.Dev, Qid: Qid{d.Qid.Type, d.Qid.Version, d.Qid.Path}, Mode: d.Mode, Atime: d.Atime, Mtime: d.Mtime, Length: d.Length, Name: d.Name, Ext: d.Ext}
				c16CheckStat(x, st, nil, local, clnt.Dotu, fmt.Sprintf("FStat(%q)", p))
				if strings.Count(e.Rel, "/") >= 16 {
					x.Probe("client-walk-split-into-several-twalks")
				}
			}
			// paths that do not exist resolve to an error
			for _, bad := range []string{"no-such-entry", tree[len(tree)-1].Rel + "/below-a-leaf"} {
				if _, err := os.Lstat(filepath.Join(u.Root, bad)); err == nil {
					continue
				}
				if _, err := clnt.FStat(bad); err == nil {
					x.Violate("w7-client-path", "FStat(%q) succeeded although the local path does not exist", bad)
				}
			}
			// the same from several goroutines sharing the client, once long paths have been resolved
			k := 2 + int(c.Seed%3)
			doneCnt := 0
			for gi := 0; gi < k; gi++ {
				gi := gi
				var mine []tEntry
				for n := 0; n < 6; n++ {
					if e := tree[r.Intn(len(tree))]; e.Rel != "" {
						mine = append(mine, e)
					}
				}
				rt.Go(rt.SiteSpawn, func() {
					rt.SetName(fmt.Sprintf("client-%d", gi))
					for _, e := range mine {
						local := filepath.Join(u.Root, e.Rel)
						if _, lerr := os.Lstat(local); lerr != nil {
							continue
						}
						d, err := clnt.FStat(e.Rel)
						if err != nil {
							x.Violate("w7-client-path", "FStat(%q) failed with %d goroutines sharing the client although the local path exists: %v", e.Rel, k, err)
							continue
						}
						st := &Stat{Type: d.Type, Dev: d.Dev, Qid: Qid{d.Qid.Type, d.Qid.Version, d.Qid.Path}, Mode: d.Mode, Atime: d.Atime, Mtime: d.Mtime, Length: d.Length, Name: d.Name, Ext: d.Ext}
						c16CheckStat(x, st, nil, local, clnt.Dotu, fmt.Sprintf("concurrent FStat(%q)", e.Rel))
					}
					doneCnt++
				})
			}
			rt.YieldUntil(rt.SiteActor, func() bool { return doneCnt == k })
			x.Probe("client-shared-by-goroutines")
			finished = true
		})
	} else {
		sc := u.Raw(int(c.cfg("seg")))
		p := sc.Peer
		rt.Go(rt.SiteSpawn, func() {
			rt.SetName("raw-client")
			if !rawAttach(p, ms, dotu, "") {
				x.Violate("w0-mount", "attach failed")
				return
			}
			dotu := p.Dotu
			inodes := map[uint64]string{}
			fidno := uint32(10)
			tag := uint16(10)
			call := func(m *Msg) *Recvd {
				tag++
				m.Tag = tag
				r := p.Call(m)
				if r == nil || r.M == nil {
					x.Violate("w0-stalled", "%s got no reply", m)
				}
				return r
			}
			for k := 0; k < nw; k++ {
				// start point: an existing directory (or the root), bound to a fresh fid by a full walk
				e := tree[r.Intn(len(tree))]
				var startNames []string
				if e.Rel != "" {
					startNames = strings.Split(e.Rel, "/")
				}
				if len(startNames) > 16 {
					startNames = startNames[:16]
				}
				start := filepath.Join(append([]string{u.Root}, startNames...)...)
				fidno++
				src := fidno
				if rr := call(&Msg{Type: Twalk, Fid: 0, Newfid: src, Wname: startNames}); rr == nil || rr.M == nil {
					return
				} else if rr.M.Type != Rwalk || len(rr.M.Wqid) != len(startNames) {
					if lstatPrefix(u.Root, startNames) == len(startNames) {
						x.Violate("w1-walk", "walk to the existing path %q answered %s", e.Rel, rr.M)
					}
					continue
				}
				// the walk under test: a prefix of an existing path below start, then possibly names that do not exist
				var names []string
				var cands []string
				for _, t := range tree {
					if strings.HasPrefix(t.Rel, e.Rel) && t.Rel != e.Rel && (e.Rel == "" || strings.HasPrefix(t.Rel, e.Rel+"/")) {
						cands = append(cands, t.Rel)
					}
				}
				if len(cands) > 0 && r.Pct(85) {
					t := cands[r.Intn(len(cands))]
					names = strings.Split(strings.TrimPrefix(strings.TrimPrefix(t, e.Rel), "/"), "/")
				}
				if len(names) > 14 {
					names = names[:14]
				}
				switch r.Intn(4) {
				case 0:
					names = append(names, "missing")
				case 1:
					names = append(names, "missing", "more")
				case 2:
					if len(names) > 0 {
						names = append([]string{"missing-first"}, names...)
					}
				}
				if len(names) > 16 {
					names = names[:16]
				}
				inplace := r.Pct(30)
				fidno++
				nf := fidno
				if inplace {
					nf = src
				}
				exist := lstatPrefix(start, names)
				if sfi, err := os.Lstat(start); err == nil && !sfi.IsDir() && len(names) > 0 {
					// the start fid designates a file or a symbolic link (not followed): walking by name from a
					// non-directory is refused by the protocol rules (C05), whatever the link points to
					continue
				}
				rr := call(&Msg{Type: Twalk, Fid: src, Newfid: nf, Wname: names})
				if rr == nil || rr.M == nil {
					return
				}
				what := fmt.Sprintf("walk from %q by %q (%d of %d elements exist, newfid==fid: %v)", e.Rel, names, exist, len(names), inplace)
				switch {
				case len(names) > 0 && exist == 0:
					if rr.M.Type != Rerror {
						x.Violate("w2-first-missing", "%s: the first element does not exist, yet the answer is %s", what, rr.M)
					}
					x.Probe("walk-first-missing")
				case rr.M.Type != Rwalk:
					x.Violate("w1-walk", "%s answered %s", what, rr.M)
					continue
				case len(rr.M.Wqid) != exist:
					x.Violate("w1-nwqid", "%s returned %d qids", what, len(rr.M.Wqid))
					continue
				default:
					pp := start
					for i, q := range rr.M.Wqid {
						pp = pp + "/" + names[i]
						q := q
						c16CheckStat(x, nil, &q, pp, dotu, what+fmt.Sprintf(" element %d", i))
						if fi, err := os.Lstat(pp); err == nil {
							ino := fi.Sys().(*syscall.Stat_t).Ino
							rp, _ := filepath.EvalSymlinks(filepath.Dir(pp))
							key := rp + "/" + filepath.Base(pp)
							if prev, ok := inodes[q.Path]; ok && prev != key {
								// two names, one qid path: must be hard links of one file
								if pfi, err := os.Lstat(prev); err == nil && pfi.Sys().(*syscall.Stat_t).Ino != ino {
									x.Violate("w5-qid-path", "qid path %d reported for two different files %q and %q", q.Path, prev, key)
								}
							}
							inodes[q.Path] = key
						}
					}
				}
				for i := 0; i+1 < exist; i++ {
					if fi, err := os.Lstat(filepath.Join(append([]string{start}, names[:i+1]...)...)); err == nil && fi.Mode()&os.ModeSymlink != 0 {
						x.Probe("walk-through-symlink-to-directory")
						break
					}
				}
				full := exist == len(names)
				if full && len(names) > 0 && r.Pct(25) {
					// the object changes behind the server's back between the walk and the first look at the fid
					tp := filepath.Join(append([]string{start}, names...)...)
					if fi, err := os.Lstat(tp); err == nil && fi.Mode().IsRegular() && fi.Size() < 1<<20 {
						os.Chmod(tp, fi.Mode().Perm()^0o044)
						if f, err := os.OpenFile(tp, os.O_WRONLY|os.O_APPEND, 0); err == nil {
							f.Write([]byte("changed"))
							f.Close()
						}
						t := fi.ModTime().Unix() + 5
						syscall.UtimesNano(tp, []syscall.Timespec{{Sec: t}, {Sec: t}})
						x.Probe("file-changed-between-walk-and-stat")
					}
				}
				if !full {
					x.Probe("partial-walk")
					if inplace {
						x.Probe("partial-walk-in-place")
					}
				}
				// where do the fids point now?
				srcWant := start
				if inplace && full {
					srcWant = filepath.Join(append([]string{start}, names...)...)
				}
				if sr := call(&Msg{Type: Tstat, Fid: src}); sr != nil && sr.M != nil {
					if sr.M.Type != Rstat {
						x.Violate("w3-source-fid", "%s: afterwards Tstat of the source fid answered %s", what, sr.M)
					} else {
						if sr.M.Stat.Name != filepath.Base(srcWant) && !(srcWant == u.Root) {
							x.Violate("w3-source-fid", "%s: afterwards the source fid designates %q, it must designate %q", what, sr.M.Stat.Name, filepath.Base(srcWant))
						} else {
							c16CheckStat(x, &sr.M.Stat, nil, srcWant, dotu, "Tstat after "+what)
						}
					}
				}
				// and the source fid can still be walked from, if it is a directory with something in it
				if sfi, err := os.Lstat(srcWant); err == nil && sfi.IsDir() {
					if es, _ := os.ReadDir(srcWant); len(es) > 0 {
						child := es[r.Intn(len(es))].Name()
						fidno++
						if wr := call(&Msg{Type: Twalk, Fid: src, Newfid: fidno, Wname: []string{child}}); wr != nil && wr.M != nil {
							if wr.M.Type != Rwalk || len(wr.M.Wqid) != 1 {
								x.Violate("w3-source-fid", "%s: afterwards a walk from the source fid (now %q) to its entry %q answered %s", what, filepath.Base(srcWant), child, wr.M)
							} else {
								q := wr.M.Wqid[0]
								c16CheckStat(x, nil, &q, filepath.Join(srcWant, child), dotu, "walk from the source fid after "+what)
								call(&Msg{Type: Tclunk, Fid: fidno})
							}
						}
					}
				}
				if !inplace {
					nr := call(&Msg{Type: Tstat, Fid: nf})
					if nr != nil && nr.M != nil {
						if full {
							tgt := filepath.Join(append([]string{start}, names...)...)
							if nr.M.Type != Rstat {
								x.Violate("w4-newfid", "%s: Tstat of the new fid answered %s", what, nr.M)
							} else {
								c16CheckStat(x, &nr.M.Stat, nil, tgt, dotu, "Tstat of newfid after "+what)
								// the fid keeps designating the same object once it is open (a symbolic link is
								// opened through, but the fid still names the link)
								if r.Pct(50) {
									if or := call(&Msg{Type: Topen, Fid: nf, Mode: 0}); or != nil && or.M != nil && or.M.Type == Ropen {
										if sr := call(&Msg{Type: Tstat, Fid: nf}); sr != nil && sr.M != nil && sr.M.Type == Rstat {
											c16CheckStat(x, &sr.M.Stat, nil, tgt, dotu, "Tstat of the opened newfid after "+what)
											x.Probe("stat-of-open-fid")
										} else if sr != nil && sr.M != nil {
											x.Violate("w4-newfid", "%s: Tstat of the new fid, once open, answered %s", what, sr.M)
										}
									}
									call(&Msg{Type: Tclunk, Fid: nf})
								}
							}
						} else if nr.M.Type != Rerror || nr.M.Ename != "unknown fid" {
							x.Violate("w4-newfid", "%s: the walk was not complete, yet the new fid answers Tstat with %s", what, nr.M)
						}
					}
				}
			}
			finished = true
		})
	}
	if !x.Run() {
		return
	}
	u.CountFaults()
	if !finished && len(x.Res.Viol) == 0 {
		x.Violate("w0-stalled", "the session did not finish")
	}
}
