package h

// C08 — independent requests progress independently; shared tags run FIFO
// (DESIGN.md §4 C08).

import (
	"fmt"

	"github.com/rminnich/go9p/vsim/rt"
)

func init() { register(&Property{ID: "C08", Gen: c08Gen, Exec: c08Exec}) }

func c08Gen(seed uint64, run int, tier string) *Case {
	r := NewRand(seed)
	c := &Case{Cfg: map[string]int64{}}
	genSrvCfg(r, c, tier)
	maxHeld := 3
	if tier == "thorough" {
		maxHeld = 6
	}
	maxData := effMsize(c) - IOHDRSZ
	nconn := int(c.Cfg["nconn"])
	c.Stratum = "distinct-tags"
	groups := run%2 == 1
	if groups {
		c.Stratum = "shared-tag-groups"
	}
	for ci := 0; ci < nconn; ci++ {
		n := r.Range(2, 12)
		held := 0
		slot := 0
		for i := 0; i < n; i++ {
			mode := PNow
			switch r.Intn(8) {
			case 0:
				mode = PAfter
			case 1, 2, 3:
				if held < maxHeld {
					mode = r.Pick(PHold, PHold, PAsync)
					held++
				}
			}
			ti := r.Intn(nWTypes)
			cnt := r.Pick(0, 1, 13, 100, maxData)
			if ti == wtWalk {
				cnt = r.Intn(4)
			}
			if groups && r.Pct(30) && i+1 < n {
				// a group of 2..8 requests deliberately issued under one tag
				g := r.Range(2, 8)
				for k := 0; k < g && i < n; k++ {
					m := PNow
					if r.Pct(25) && held < maxHeld {
						m = r.Pick(PHold, PAsync)
						held++
					} else if r.Pct(15) {
						m = PAfter
					}
					t2 := r.Intn(nWTypes)
					c2 := r.Pick(0, 5, 60)
					if t2 == wtWalk {
						c2 = r.Intn(4)
					}
					op := reqOp(ci, t2, 100+slot, m, r.Pct(15), c2, r.Pct(30), 0)
					if k > 0 {
						op.A = append(op.A, 1) // shared: do not wait for the predecessor
					}
					c.Ops = append(c.Ops, op)
					i++
				}
				slot++
				continue
			}
			c.Ops = append(c.Ops, reqOp(ci, ti, slot, mode, r.Pct(15), cnt, r.Pct(30), 0))
			slot++
		}
	}
	c.Cfg["late"] = int64(r.Range(1, 3))
	return c
}

// groupHeadBlocked reports whether an earlier member of q's shared-tag group
// is still unanswered (q is then legitimately waiting its turn).
func groupBlocked(w *SrvWork, q *wReq) bool {
	for p := q.prev; p != nil && q.Shared; p, q = p.prev, p {
		if p.Sent == nil || p.Sent.Reply == nil {
			return true
		}
	}
	return false
}

func c08Exec(x *Ctx) {
	w := NewSrvWork(x, false)
	phase := 0
	check := func() {
		phase++
		nheld := len(w.fs.HeldInvs())
		for _, q := range w.reqs {
			if q.Sent == nil || q.Sent.Reply != nil {
				continue
			}
			if inv := w.invOf(q); inv != nil && inv.Held && !inv.Released {
				continue // blocked inside the implementation by the script
			}
			if groupBlocked(w, q) {
				continue // waits its turn behind an earlier member of its tag group
			}
			if !w.setupOK[q.Conn] {
				continue
			}
			x.Violate("h1-delayed", "phase %d (%d requests parked in the implementation): %v has no reply at quiescence although it is not parked and shares its tag with no unanswered earlier request", phase, nheld, q)
		}
		if nheld > 0 {
			x.Probe("quiescence-with-requests-parked")
		}
	}
	w.FirstQuiescence = func() {
		check()
		// requests issued now, while others are parked, must be answered too
		if len(w.fs.HeldInvs()) == 0 {
			return
		}
		var late []*Sent
		for ci := range w.byConn {
			if !w.setupOK[ci] {
				continue
			}
			peer := w.sys.Conns[ci].Peer
			n := int(x.C.cfg("late"))
			rt.Go(rt.SiteSpawn, func() {
				rt.SetName("late-client")
				var ms []*Msg
				for k := 0; k < n; k++ {
					ms = append(ms, &Msg{Type: Tstat, Tag: uint16(3000 + k), Fid: 0})
				}
				late = append(late, peer.Write(ms...)...)
			})
		}
		if !x.Run() {
			return
		}
		for _, s := range late {
			if s.Reply == nil {
				x.Violate("h1-late-delayed", "a Tstat issued while %d requests were parked in the implementation got no reply at quiescence", len(w.fs.HeldInvs()))
			} else {
				x.Probe("late-request-answered-while-others-parked")
			}
		}
	}
	w.AfterEachRelease = check
	w.Start()
	if !w.RunPhases() {
		return
	}
	check()
	// h2: shared-tag groups are executed one at a time in arrival order and answered in that order
	for ci, sc := range w.sys.Conns {
		_ = sc
		var grp []*wReq
		flushGrp := func() {
			if len(grp) < 2 {
				grp = nil
				return
			}
			if len(grp) >= 3 {
				x.Probe("shared-tag-group-of-3+")
			}
			lastAns, lastStart, lastReply := -1, -1, -1
			for i, q := range grp {
				invs := w.invsOf(q)
				if len(invs) == 1 {
					inv := invs[0]
					if inv.Step < lastStart {
						x.Violate("h2-order", "conn %d: shared-tag group on tag %d: member %d (%v) started at step %d, before its predecessor (step %d)", ci, q.Tag, i, q, inv.Step, lastStart)
					}
					if inv.Step < lastAns {
						x.Violate("h2-overlap", "conn %d: shared-tag group on tag %d: member %d (%v) entered the implementation at step %d while its predecessor was only answered at step %d", ci, q.Tag, i, q, inv.Step, lastAns)
					}
					lastStart = inv.Step
					if len(inv.AnsSteps) > 0 {
						lastAns = inv.AnsSteps[0]
					}
					if inv.Plan != nil && (inv.Plan.Mode == PHold || inv.Plan.Mode == PAsync) && i+1 < len(grp) {
						x.Probe("group-member-parked-with-successors")
					}
				}
				if q.Sent != nil && q.Sent.Reply != nil {
					if q.Sent.Reply.Idx < lastReply {
						x.Violate("h2-reply-order", "conn %d: shared-tag group on tag %d: member %d (%v) was answered (frame %d) before its predecessor (frame %d)", ci, q.Tag, i, q, q.Sent.Reply.Idx, lastReply)
					}
					lastReply = q.Sent.Reply.Idx
				}
			}
			grp = nil
		}
		bySlot := map[int][]*wReq{}
		var slots []int
		for _, q := range w.byConn[ci] {
			if _, ok := bySlot[q.Slot]; !ok {
				slots = append(slots, q.Slot)
			}
			bySlot[q.Slot] = append(bySlot[q.Slot], q)
		}
		for _, s := range slots {
			for _, q := range bySlot[s] {
				if !q.Shared {
					flushGrp()
				}
				grp = append(grp, q)
			}
			flushGrp()
		}
	}
	w.CheckReplies(nil)
	w.countProbes()
	_ = fmt.Sprintf
}
