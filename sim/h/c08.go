package h

// C08 — independent requests progress independently; shared tags run FIFO
// (DESIGN.md §4 C08).

import (
	"fmt"

	"github.com/rminnich/go9p/vsim/rt"
)

func init() { register(&Property{ID: "C08", Gen: c08Gen, Exec: c08Exec}) }

func c08Gen(seed uint64, run int, tier string) *Case {
	r := NewRand(seed)
	c := &Case{Cfg: map[string]int64{}}
	genSrvCfg(r, c, tier)
	maxHeld := 3
	if tier == "thorough" {
		maxHeld = 6
	}
	maxData := effMsize(c) - IOHDRSZ
	nconn := int(c.Cfg["nconn"])
	c.Cfg["tagxor"] = int64(r.Pick(0, 0, 0, 0, 0x8000, 0xFFFF, 0xFFFF^100, 0xFFFF^101, 0xFFFF^(100+r.Intn(6)))) // tag values from the far end too: slot 0, or one of the first shared-tag groups, is tag 0xFFFF
	if run%10 == 9 {
		// a read or write on an authentication fid parked inside AuthRead / AuthWrite
		c.Stratum = "auth-fid-blocked"
		c.Cfg["authblock"] = 1
		c.Cfg["nconn"] = 2
		c.Cfg["holdwrite"] = int64(r.Intn(2))
		c.Cfg["sameseg"] = int64(r.Intn(2))
		return c
	}
	if run%20 == 17 {
		// a request parked in the implementation on a fid that is clunked meanwhile, and whose number is used again
		c.Stratum = "clunk-of-a-busy-fid"
		c.Cfg["special"] = 3
		c.Cfg["nconn"] = 2
		c.Cfg["sameseg"] = int64(r.Intn(2))
		c.Cfg["remove"] = int64(r.Intn(2))
		return c
	}
	if run%20 == 2 || run%20 == 12 {
		// a Twalk parked in the implementation while a request names its new fid (2), or a Tflush whose
		// FlushOp.Flush call is parked (12)
		c.Stratum = []string{"newfid-in-flight", "flushop-blocked"}[run%20/10]
		c.Cfg["special"] = int64(1 + run%20/10)
		c.Cfg["nconn"] = 2
		c.Cfg["sameseg"] = int64(r.Intn(2))
		return c
	}
	if run%10 == 4 {
		// the implementation is slow inside FidDestroy, the callback of a clunk
		c.Stratum = "fid-destroy-blocked"
		c.Cfg["destroyblock"] = 1
		c.Cfg["nconn"] = 2
		c.Cfg["sameseg"] = int64(r.Intn(2))
		return c
	}
	c.Stratum = "distinct-tags"
	groups := run%2 == 1
	if groups {
		c.Stratum = "shared-tag-groups"
	}
	for ci := 0; ci < nconn; ci++ {
		n := r.Range(2, 12)
		held := 0
		slot := 0
		for i := 0; i < n; i++ {
			mode := PNow
			switch r.Intn(8) {
			case 0:
				mode = PAfter
			case 1, 2, 3:
				if held < maxHeld {
					mode = r.Pick(PHold, PHold, PAsync)
					held++
				}
			}
			ti := r.Intn(nWTypes)
			cnt := r.Pick(0, 1, 13, 100, maxData)
			if ti == wtWalk {
				cnt = r.Intn(4)
			}
			if groups && r.Pct(30) && i+1 < n {
				// a group of 2..8 requests deliberately issued under one tag
				g := r.Range(2, 8)
				for k := 0; k < g && i < n; k++ {
					m := PNow
					if r.Pct(25) && held < maxHeld {
						m = r.Pick(PHold, PAsync)
						held++
					} else if r.Pct(15) {
						m = PAfter
					}
					t2 := r.Intn(nWTypes)
					c2 := r.Pick(0, 5, 60)
					if t2 == wtWalk {
						c2 = r.Intn(4)
					}
					op := reqOp(ci, t2, 100+slot, m, r.Pct(15), c2, r.Pct(30), 0)
					if k > 0 {
						op.A = append(op.A, 1) // shared: do not wait for the predecessor
					}
					c.Ops = append(c.Ops, op)
					i++
				}
				slot++
				continue
			}
			c.Ops = append(c.Ops, reqOp(ci, ti, slot, mode, r.Pct(15), cnt, r.Pct(30), 0))
			slot++
		}
	}
	c.Cfg["late"] = int64(r.Range(1, 3))
	return c
}

// groupHeadBlocked reports whether an earlier member of q's shared-tag group
// is still unanswered (q is then legitimately waiting its turn).
func groupBlocked(w *SrvWork, q *wReq) bool {
	for p := q.prev; p != nil && q.Shared; p, q = p.prev, p {
		if p.Sent == nil || p.Sent.Reply == nil {
			return true
		}
	}
	return false
}

// c08Auth: one request on an authentication fid is parked inside the implementation's AuthRead / AuthWrite;
// requests with other tags -- on the same afid, on other fids, on another connection -- must all be answered.
func c08Auth(x *Ctx) {
	c := x.C
	ms := uint32(1024)
	fs := NewScriptFS(x)
	fs.PlanFor = func(inv *Inv) *Plan { return &Plan{NWqid: -1, NData: -1, QType: qDir} }
	holdOp := "authread"
	if c.cfg("holdwrite") != 0 {
		holdOp = "authwrite"
	}
	first := true
	fs.AuthHold = func(inv *Inv) bool {
		if inv.Op == holdOp && inv.Conn == 0 && first {
			first = false
			return true
		}
		return false
	}
	sys := NewSrvSys(x, fs.OpsValue(true, false), fs, ms, true, int(c.cfg("maxpend")), int(c.cfg("debug")))
	for i := 0; i < 2; i++ {
		sys.AddConn(0, int(c.cfg("seg")))
	}
	var parked *Sent
	var others []*Sent
	setup := false
	rt.Go(rt.SiteSpawn, func() {
		rt.SetName("auth-client")
		for ci := 0; ci < 2; ci++ {
			p := sys.Conns[ci].Peer
			if r := p.Call(&Msg{Type: Tversion, Tag: NOTAG, Msize: ms, Version: "9P2000.u"}); r == nil || r.M == nil || r.M.Type != Rversion {
				return
			}
			if r := p.Call(&Msg{Type: Tauth, Tag: 1, Afid: 5, Uname: "u0", Aname: "tree", Nuname: 0}); r == nil || r.M == nil || r.M.Type != Rauth {
				x.Violate("setup", "Tauth answered %v", r)
				return
			}
			if r := p.Call(&Msg{Type: Tattach, Tag: 2, Fid: 0, Afid: 5, Uname: "u0", Aname: "tree", Nuname: 0}); r == nil || r.M == nil || r.M.Type != Rattach {
				x.Violate("setup", "Tattach answered %v", r)
				return
			}
		}
		setup = true
		p0, p1 := sys.Conns[0].Peer, sys.Conns[1].Peer
		pm := &Msg{Type: Tread, Tag: 10, Fid: 5, Offset: 0, Count: 16}
		if holdOp == "authwrite" {
			pm = &Msg{Type: Twrite, Tag: 10, Fid: 5, Offset: 0, Count: 8, Data: []byte("abcdefgh")}
		}
		parked = p0.Write(pm)[0]
		rt.YieldUntil(rt.SiteActor, func() bool { return len(fs.HeldInvs()) > 0 || parked.Reply != nil || p0.EOF })
		ms0 := []*Msg{
			{Type: Twrite, Tag: 11, Fid: 5, Offset: 8, Count: 4, Data: []byte("wxyz")},
			{Type: Tread, Tag: 12, Fid: 5, Offset: 16, Count: 8},
			{Type: Tstat, Tag: 13, Fid: 0},
			{Type: Tattach, Tag: 14, Fid: 1, Afid: 5, Uname: "u0", Aname: "tree", Nuname: 0},
			{Type: Twalk, Tag: 15, Fid: 0, Newfid: 2, Wname: []string{"a"}},
		}
		if c.cfg("sameseg") != 0 {
			others = append(others, p0.Write(ms0...)...)
		} else {
			for _, m := range ms0 {
				others = append(others, p0.Write(m)[0])
			}
		}
		others = append(others, p1.Write(&Msg{Type: Tstat, Tag: 20, Fid: 0}, &Msg{Type: Tread, Tag: 21, Fid: 5, Offset: 0, Count: 8})...)
	})
	if !x.Run() {
		return
	}
	if !setup {
		if len(x.Res.Viol) == 0 {
			x.Violate("setup", "the authentication set-up did not complete")
		}
		return
	}
	if len(fs.HeldInvs()) == 1 {
		x.Probe("quiescence-with-requests-parked")
		for _, s := range others {
			if s.Reply == nil {
				x.Violate("h1-delayed", "%s has no reply at quiescence while only %s (another tag) is parked inside the implementation's %s", s.M, parked.M, holdOp)
			}
		}
	} else if parked == nil || parked.Reply == nil {
		x.Violate("h1-delayed", "the request that was to be parked in %s never reached the implementation", holdOp)
	}
	for _, h := range fs.HeldInvs() {
		h.Released = true
	}
	if !x.Run() {
		return
	}
	if parked != nil && parked.Reply == nil {
		x.Violate("h1-delayed", "%s, released by the implementation, has no reply", parked.M)
	}
	for _, s := range others {
		if s.Reply == nil && len(x.Res.Viol) == 0 {
			x.Violate("h1-delayed", "%s has no reply at the end", s.M)
		}
	}
}

// c08Destroy: a Tclunk whose FidDestroy callback is parked inside the implementation; requests with other tags --
// on other fids of the connection and on another connection -- must all be answered.
func c08Destroy(x *Ctx) {
	c := x.C
	ms := uint32(1024)
	fs := NewScriptFS(x)
	fs.PlanFor = func(inv *Inv) *Plan { return &Plan{NWqid: -1, NData: -1, QType: qDir} }
	armed, first := false, true
	fs.DestroyHold = func(inv *Inv) bool {
		if armed && first && inv.Conn == 0 {
			first = false
			return true
		}
		return false
	}
	sys := NewSrvSys(x, fs.OpsValue(false, false), fs, ms, true, int(c.cfg("maxpend")), int(c.cfg("debug")))
	for i := 0; i < 2; i++ {
		sys.AddConn(0, int(c.cfg("seg")))
	}
	var parked *Sent
	var others []*Sent
	setup := false
	rt.Go(rt.SiteSpawn, func() {
		rt.SetName("client")
		for ci := 0; ci < 2; ci++ {
			p := sys.Conns[ci].Peer
			if r := p.Call(&Msg{Type: Tversion, Tag: NOTAG, Msize: ms, Version: "9P2000.u"}); r == nil || r.M == nil || r.M.Type != Rversion {
				return
			}
			for _, m := range []*Msg{{Type: Tattach, Tag: 2, Fid: 0, Afid: NOFID, Uname: "u0", Nuname: 0},
				{Type: Twalk, Tag: 3, Fid: 0, Newfid: 1, Wname: []string{"a"}}, {Type: Twalk, Tag: 4, Fid: 0, Newfid: 2, Wname: nil}} {
				if r := p.Call(m); r == nil || r.M == nil || r.M.Type == Rerror {
					x.Violate("setup", "%s answered %v", m, r)
					return
				}
			}
		}
		setup = true
		p0, p1 := sys.Conns[0].Peer, sys.Conns[1].Peer
		armed = true
		parked = p0.Write(&Msg{Type: Tclunk, Tag: 10, Fid: 1})[0]
		rt.YieldUntil(rt.SiteActor, func() bool { return len(fs.HeldInvs()) > 0 || p0.EOF })
		ms0 := []*Msg{
			{Type: Tstat, Tag: 11, Fid: 0},
			{Type: Twalk, Tag: 12, Fid: 0, Newfid: 3, Wname: []string{"b"}},
			{Type: Tclunk, Tag: 13, Fid: 2},
			{Type: Tstat, Tag: 14, Fid: 3},
			{Type: Tattach, Tag: 15, Fid: 5, Afid: NOFID, Uname: "u1", Nuname: 1},
		}
		if c.cfg("sameseg") != 0 {
			others = append(others, p0.Write(ms0...)...)
		} else {
			for _, m := range ms0 {
				others = append(others, p0.Write(m)[0])
			}
		}
		others = append(others, p1.Write(&Msg{Type: Tstat, Tag: 20, Fid: 0}, &Msg{Type: Tclunk, Tag: 21, Fid: 1})...)
	})
	if !x.Run() {
		return
	}
	if !setup {
		if len(x.Res.Viol) == 0 {
			x.Violate("setup", "the set-up did not complete")
		}
		return
	}
	if len(fs.HeldInvs()) == 1 {
		x.Probe("quiescence-with-requests-parked")
		for _, s := range others {
			if s.Reply == nil {
				x.Violate("h1-delayed", "%s has no reply at quiescence while only the FidDestroy callback of %s (another tag) is parked inside the implementation", s.M, parked.M)
			}
		}
	} else {
		x.Violate("h1-delayed", "the clunk whose FidDestroy was to be parked never got there")
	}
	for _, h := range fs.HeldInvs() {
		h.Released = true
	}
	if !x.Run() {
		return
	}
	if parked != nil && parked.Reply == nil {
		x.Violate("h1-delayed", "%s has no reply although its FidDestroy callback returned", parked.M)
	}
}

// c08Special: (1) a Twalk to a new fid is parked in the implementation and a request that names the new fid number
// arrives: whatever happens to that request, the others -- other fids, other connection -- are answered;
// (2) the implementation's FlushOp.Flush call for a Tflush is parked: requests with other tags are answered.
func c08Special(x *Ctx) {
	c := x.C
	kind := int(c.cfg("special"))
	ms := uint32(1024)
	fs := NewScriptFS(x)
	fs.PlanFor = func(inv *Inv) *Plan {
		p := &Plan{NWqid: -1, NData: -1, QType: qDir}
		if inv.Tag == 10 && inv.Conn == 0 {
			p.Mode = PHold
		}
		return p
	}
	firstFlush := true
	fs.FlushHold = func(inv *Inv) bool {
		if kind == 2 && firstFlush {
			firstFlush = false
			return true
		}
		return false
	}
	sys := NewSrvSys(x, fs.OpsValue(false, kind == 2), fs, ms, true, int(c.cfg("maxpend")), int(c.cfg("debug")))
	for i := 0; i < 2; i++ {
		sys.AddConn(0, int(c.cfg("seg")))
	}
	var others []*Sent
	var parkedWhat string
	setup := false
	rt.Go(rt.SiteSpawn, func() {
		rt.SetName("client")
		for ci := 0; ci < 2; ci++ {
			p := sys.Conns[ci].Peer
			if r := p.Call(&Msg{Type: Tversion, Tag: NOTAG, Msize: ms, Version: "9P2000.u"}); r == nil || r.M == nil || r.M.Type != Rversion {
				return
			}
			for _, m := range []*Msg{{Type: Tattach, Tag: 2, Fid: 0, Afid: NOFID, Uname: "u0", Nuname: 0}, {Type: Twalk, Tag: 3, Fid: 0, Newfid: 1, Wname: []string{"a"}}} {
				if r := p.Call(m); r == nil || r.M == nil || r.M.Type == Rerror {
					x.Violate("setup", "%s answered %v", m, r)
					return
				}
			}
		}
		setup = true
		p0, p1 := sys.Conns[0].Peer, sys.Conns[1].Peer
		var ms0 []*Msg
		if kind == 1 {
			parkedWhat = "a Twalk to the new fid 2"
			p0.Write(&Msg{Type: Twalk, Tag: 10, Fid: 0, Newfid: 2, Wname: []string{"b"}})
			rt.YieldUntil(rt.SiteActor, func() bool { return len(fs.HeldInvs()) > 0 || p0.EOF })
			p0.Write(&Msg{Type: Tstat, Tag: 11, Fid: 2}) // names the fid being made: not judged
			ms0 = []*Msg{{Type: Tstat, Tag: 12, Fid: 1}, {Type: Twalk, Tag: 13, Fid: 0, Newfid: 3, Wname: []string{"c"}}, {Type: Tstat, Tag: 14, Fid: 0}}
		} else if kind == 3 {
			parkedWhat = "a Tstat on fid 1"
			p0.Write(&Msg{Type: Tstat, Tag: 10, Fid: 1})
			rt.YieldUntil(rt.SiteActor, func() bool { return len(fs.HeldInvs()) > 0 || p0.EOF })
			// the fid is clunked (or removed) under the parked request: that is answered; then its number is
			// introduced again by a walk and an attach: whatever they are told, they are told now
			typ := uint8(Tclunk)
			if c.cfg("remove") != 0 {
				typ = Tremove
			}
			cl := p0.Write(&Msg{Type: typ, Tag: 15, Fid: 1})[0]
			others = append(others, cl)
			for y := 0; y < 60 && cl.Reply == nil && !p0.EOF; y++ {
				rt.Yield(rt.SiteActor)
			}
			ms0 = []*Msg{{Type: Twalk, Tag: 12, Fid: 0, Newfid: 1, Wname: []string{"c"}}, {Type: Tattach, Tag: 13, Fid: 1, Afid: NOFID, Uname: "u0", Nuname: 0}, {Type: Tstat, Tag: 14, Fid: 0}}
		} else {
			parkedWhat = "a Tstat and the FlushOp.Flush call of the Tflush naming it"
			p0.Write(&Msg{Type: Tstat, Tag: 10, Fid: 1})
			rt.YieldUntil(rt.SiteActor, func() bool { return len(fs.HeldInvs()) > 0 || p0.EOF })
			p0.Write(&Msg{Type: Tflush, Tag: 11, Oldtag: 10})
			rt.YieldUntil(rt.SiteActor, func() bool { return len(fs.HeldInvs()) > 1 || p0.EOF })
			ms0 = []*Msg{{Type: Tstat, Tag: 12, Fid: 1}, {Type: Twalk, Tag: 13, Fid: 0, Newfid: 3, Wname: []string{"c"}}, {Type: Tclunk, Tag: 14, Fid: 1}}
		}
		if c.cfg("sameseg") != 0 {
			others = append(others, p0.Write(ms0...)...)
		} else {
			for _, m := range ms0 {
				others = append(others, p0.Write(m)[0])
			}
		}
		others = append(others, p1.Write(&Msg{Type: Tstat, Tag: 20, Fid: 1}, &Msg{Type: Twalk, Tag: 21, Fid: 0, Newfid: 4, Wname: []string{"d"}})...)
	})
	if !x.Run() {
		return
	}
	if !setup {
		if len(x.Res.Viol) == 0 {
			x.Violate("setup", "the set-up did not complete")
		}
		return
	}
	if n := len(fs.HeldInvs()); n >= 1 {
		x.Probe("quiescence-with-requests-parked")
		for _, s := range others {
			if s.Reply == nil {
				x.Violate("h1-delayed", "%s has no reply at quiescence while only %s is parked inside the implementation", s.M, parkedWhat)
			}
		}
	} else {
		x.Violate("h1-delayed", "%s never reached the implementation", parkedWhat)
	}
	for {
		held := fs.HeldInvs()
		if len(held) == 0 {
			break
		}
		held[x.S.Choose(len(held))].Released = true
		if !x.Run() {
			return
		}
	}
	for _, s := range sys.Conns[0].Peer.Sent {
		if s.Reply == nil && s.M.Tag != 10 && len(x.Res.Viol) == 0 {
			x.Violate("h1-delayed", "%s has no reply at the end", s.M)
		}
	}
}

func c08Exec(x *Ctx) {
	if x.C.cfg("special") != 0 {
		c08Special(x)
		return
	}
	if x.C.cfg("destroyblock") != 0 {
		c08Destroy(x)
		return
	}
	if x.C.cfg("authblock") != 0 {
		c08Auth(x)
		return
	}
	w := NewSrvWork(x, false)
	phase := 0
	check := func() {
		phase++
		nheld := len(w.fs.HeldInvs())
		for _, q := range w.reqs {
			if q.Sent == nil || q.Sent.Reply != nil {
				continue
			}
			if inv := w.invOf(q); inv != nil && inv.Held && !inv.Released {
				continue // blocked inside the implementation by the script
			}
			if groupBlocked(w, q) {
				continue // waits its turn behind an earlier member of its tag group
			}
			if !w.setupOK[q.Conn] {
				continue
			}
			x.Violate("h1-delayed", "phase %d (%d requests parked in the implementation): %v has no reply at quiescence although it is not parked and shares its tag with no unanswered earlier request", phase, nheld, q)
		}
		if nheld > 0 {
			x.Probe("quiescence-with-requests-parked")
		}
	}
	w.FirstQuiescence = func() {
		check()
		// requests issued now, while others are parked, must be answered too
		if len(w.fs.HeldInvs()) == 0 {
			return
		}
		var late []*Sent
		for ci := range w.byConn {
			if !w.setupOK[ci] {
				continue
			}
			peer := w.sys.Conns[ci].Peer
			n := int(x.C.cfg("late"))
			rt.Go(rt.SiteSpawn, func() {
				rt.SetName("late-client")
				var ms []*Msg
				for k := 0; k < n; k++ {
					ms = append(ms, &Msg{Type: Tstat, Tag: uint16(3000 + k), Fid: 0})
				}
				late = append(late, peer.Write(ms...)...)
			})
		}
		if !x.Run() {
			return
		}
		for _, s := range late {
			if s.Reply == nil {
				x.Violate("h1-late-delayed", "a Tstat issued while %d requests were parked in the implementation got no reply at quiescence", len(w.fs.HeldInvs()))
			} else {
				x.Probe("late-request-answered-while-others-parked")
			}
		}
	}
	w.AfterEachRelease = check
	w.Start()
	if !w.RunPhases() {
		return
	}
	check()
	// h2: shared-tag groups are executed one at a time in arrival order and answered in that order
	for ci, sc := range w.sys.Conns {
		_ = sc
		var grp []*wReq
		flushGrp := func() {
			if len(grp) < 2 {
				grp = nil
				return
			}
			if len(grp) >= 3 {
				x.Probe("shared-tag-group-of-3+")
			}
			lastAns, lastStart, lastReply := -1, -1, -1
			for i, q := range grp {
				invs := w.invsOf(q)
				if len(invs) == 1 {
					inv := invs[0]
					if inv.Step < lastStart {
						x.Violate("h2-order", "conn %d: shared-tag group on tag %d: member %d (%v) started at step %d, before its predecessor (step %d)", ci, q.Tag, i, q, inv.Step, lastStart)
					}
					if inv.Step < lastAns {
						x.Violate("h2-overlap", "conn %d: shared-tag group on tag %d: member %d (%v) entered the implementation at step %d while its predecessor was only answered at step %d", ci, q.Tag, i, q, inv.Step, lastAns)
					}
					lastStart = inv.Step
					if len(inv.AnsSteps) > 0 {
						lastAns = inv.AnsSteps[0]
					}
					if inv.Plan != nil && (inv.Plan.Mode == PHold || inv.Plan.Mode == PAsync) && i+1 < len(grp) {
						x.Probe("group-member-parked-with-successors")
					}
				}
				if q.Sent != nil && q.Sent.Reply != nil {
					if q.Sent.Reply.Idx < lastReply {
						x.Violate("h2-reply-order", "conn %d: shared-tag group on tag %d: member %d (%v) was answered (frame %d) before its predecessor (frame %d)", ci, q.Tag, i, q, q.Sent.Reply.Idx, lastReply)
					}
					lastReply = q.Sent.Reply.Idx
				}
			}
			grp = nil
		}
		bySlot := map[int][]*wReq{}
		var slots []int
		for _, q := range w.byConn[ci] {
			if _, ok := bySlot[q.Slot]; !ok {
				slots = append(slots, q.Slot)
			}
			bySlot[q.Slot] = append(bySlot[q.Slot], q)
		}
		for _, s := range slots {
			for _, q := range bySlot[s] {
				if !q.Shared {
					flushGrp()
				}
				grp = append(grp, q)
			}
			flushGrp()
		}
	}
	w.CheckReplies(nil)
	w.countProbes()
	_ = fmt.Sprintf
}
