package h

// C03 — exactly one correctly tagged reply per request under any concurrency
// (DESIGN.md §4 C03).

import (
	"github.com/rminnich/go9p/vsim/rt"
)

func init() { register(&Property{ID: "C03", Gen: c03Gen, Exec: c03Exec}) }

func genSrvCfg(r *Rand, c *Case, tier string) {
	genCommon(r, c.Cfg)
	ms := r.Pick(256, 512, 1024, 8192)
	c.Cfg["msize"] = int64(ms)
	c.Cfg["cmsize"] = int64(r.Pick(ms, ms, 256, 65536))
	c.Cfg["dotu"] = int64(r.Intn(2))
	c.Cfg["sdotu"] = int64(r.Intn(2))
	c.Cfg["maxpend"] = int64(r.Pick(0, 1, 2, 8, 64))
	c.Cfg["cap"] = int64(r.Pick(0, 0, 24, 300))
	c.Cfg["nconn"] = int64(r.Pick(1, 1, 2, 3))
	// the implementation may provide the optional request hooks (SrvReqProcessOps), which then call Process /
	// PostProcess themselves as the interface asks
	c.Cfg["prochook"] = int64(r.Pick(0, 0, 1))
	// the implementation may keep one long-lived Dir per file and answer every Tstat from it (the library's own Fsrv
	// does); connections of one server need not speak the same dialect
	c.Cfg["sharedir"] = int64(r.Pick(0, 0, 1))
	c.Cfg["dotu_other"] = int64(r.Pick(0, 0, 1))
	// ... or give all its late answers from one event-loop goroutine of its own
	c.Cfg["dispatcher"] = int64(r.Pick(0, 0, 1))
	// the transport may report the same remote address for every connection (net.Pipe, unix sockets)
	c.Cfg["sameaddr"] = int64(r.Pick(0, 0, 1))
}

func effMsize(c *Case) int {
	m := int(c.Cfg["msize"])
	if cm := int(c.Cfg["cmsize"]); cm < m {
		m = cm
	}
	return m
}

func c03Gen(seed uint64, run int, tier string) *Case {
	r := NewRand(seed)
	c := &Case{Cfg: map[string]int64{}}
	genSrvCfg(r, c, tier)
	maxReq := 16
	c.Cfg["autorel"] = int64(r.Intn(2)) // parked implementation calls may wake up in the middle of activity
	if tier == "thorough" {
		maxReq = 64
	}
	if run%16 == 9 {
		c03VersionGen(r, c)
		return c
	}
	if run%16 == 5 {
		c03SameFidGen(r, c)
		return c
	}
	twice := run%4 == 3
	cancels := run%4 == 2
	c.Stratum = "single-answer"
	if cancels {
		c.Stratum = "single-answer+cancelled-neighbours"
		c.Cfg["flushop"] = 1
	}
	if twice {
		c.Stratum = "double-answer"
		if run%32 == 31 {
			c.Stratum = "double-answer-error"
			c.Cfg["seconderr"] = 1
		}
	}
	maxData := effMsize(c) - IOHDRSZ
	nconn := int(c.Cfg["nconn"])
	if nconn > 1 && effMsize(c) > 256 && r.Pct(50) {
		// the connections of one server need not agree on msize: every connection but the first negotiates 256
		c.Cfg["cmsize_other"] = 256
	}
	for ci := 0; ci < nconn; ci++ {
		if ci == 1 && c.Cfg["cmsize_other"] != 0 {
			maxData = 256 - IOHDRSZ
		}
		n := r.Range(1, maxReq)
		nslots := r.Pick(1, 2, 4, 8, 16, 64)
		if nslots > n {
			nslots = n
		}
		for i := 0; i < n; i++ {
			mode := PNow
			switch r.Intn(10) {
			case 0, 1:
				mode = PHold
			case 2:
				mode = PAfter
			case 3:
				mode = PAsync
			}
			if twice && r.Pct(35) {
				mode = r.Pick(PTwice, PTwiceLate)
			}
			ti := r.Intn(nWTypes)
			cnt := r.Pick(0, 1, 13, 100, maxData/2, maxData)
			if ti == wtWalk {
				cnt = r.Intn(4)
			}
			isErr := r.Pct(20)
			if mode == PTwice || mode == PTwiceLate {
				isErr = c.Cfg["seconderr"] != 0 && r.Bool()
			}
			if cancels && (mode == PHold || mode == PAsync) && r.Pct(50) {
				// this request is cancelled by a Tflush through the implementation's FlushOp; its worker answers later
				// all the same (with an error, often): the other requests' replies must not notice
				slot := 200 + i
				if r.Bool() {
					slot = i % nslots // under a tag that an earlier request has just given back (its reply has arrived, no more)
				}
				c.Ops = append(c.Ops, reqOp(ci, ti, slot, mode, r.Pct(60), cnt, r.Pct(30), 1))
				c.Ops = append(c.Ops, flushOp(ci, 300+i, slot, r.Pick(fpWhenHeld, fpNoWait), r.Pct(50)))
				if r.Pct(40) {
					// a second and third Tflush naming the same request: each gets its own Rflush
					c.Ops = append(c.Ops, flushOp(ci, 400+i, slot, r.Pick(fpWhenHeld, fpNoWait), r.Pct(50)))
					if r.Pct(40) {
						c.Ops = append(c.Ops, flushOp(ci, 500+i, slot, fpWhenHeld, r.Pct(50)))
					}
				}
				continue
			}
			c.Ops = append(c.Ops, reqOp(ci, ti, i%nslots, mode, isErr, cnt, r.Pct(30), 0))
		}
	}
	// interleave the connections' ops (order within a connection is kept)
	return c
}

func c03Exec(x *Ctx) {
	if x.C.cfg("midversion") != 0 {
		c03Version(x)
		return
	}
	if x.C.cfg("samefid") != 0 {
		c03SameFid(x)
		return
	}
	if x.C.cfg("seconderr") != 0 {
		// recorded known finding: a duplicate answer given with RespondError
		// re-packs a reply buffer that is in flight or already recycled
		x.RulePrefix = "duperr:"
	}
	w := NewSrvWork(x, x.C.cfg("flushop") != 0)
	w.Start()
	if !w.RunPhases() {
		return
	}
	// the flushed requests themselves are C07's; every other request, the Tflush requests included, is judged here
	w.CheckReplies(func(q *wReq) bool { return q.Cancelled || len(q.FlushedBy) > 0 })
	w.countProbes()
	// probes
	outMax := 0
	for _, sc := range w.sys.Conns {
		// the largest number of requests written but unanswered at any time is
		// bounded below by the number held at first quiescence; measure simply:
		n := 0
		for _, q := range w.byConn[sc.Idx] {
			if q.Mode == PHold || q.Mode == PAsync {
				n++
			}
		}
		if n > outMax {
			outMax = n
		}
	}
	if outMax >= 8 {
		x.Probe("8+-requests-held-on-a-connection")
	}
	// completion order differs from arrival order?
	var lastSeq = -1
	for _, sc := range w.sys.Conns {
		lastSeq = -1
		for _, r := range sc.Peer.Recv {
			if r.For == nil {
				continue
			}
			if r.For.Idx < lastSeq {
				x.Probe("completion-order-differs-from-arrival")
				break
			}
			lastSeq = r.For.Idx
		}
	}
	_ = rt.Step
}
