package h

// C03, stratum "tversion-mid-session": a Tversion arrives while requests are
// outstanding (some not yet started, some parked in the implementation). The
// protocol lets the server drop those; afterwards their tags are free again,
// and every request the client sends under them gets exactly one reply.

import (
	"fmt"

	"github.com/rminnich/go9p/vsim/rt"
)

func c03VersionGen(r *Rand, c *Case) {
	c.Stratum = "tversion-mid-session"
	c.Cfg["midversion"] = 1
	c.Cfg["nreq"] = int64(r.Pick(1, 2, 4, 8, 16))
	c.Cfg["holdpct"] = int64(r.Pick(0, 30, 70))
	c.Cfg["sameseg"] = int64(r.Intn(2))
	c.Cfg["rounds"] = int64(r.Range(1, 3))
	if r.Pct(50) {
		// the tags are reused at once after Rversion, while the aborted requests are still parked in the implementation
		c.Stratum = "tversion-mid-session-eager"
		c.Cfg["eager"] = 1
		c.Cfg["holdpct"] = int64(r.Pick(30, 70, 100))
	}
}

func c03Version(x *Ctx) {
	c := x.C
	ms := uint32(1024)
	fs := NewScriptFS(x)
	holdTag := make([]bool, 1<<16)
	fs.PlanFor = func(inv *Inv) *Plan {
		p := &Plan{NWqid: -1, NData: -1, QType: qDir}
		if holdTag[inv.Tag] {
			p.Mode = PHold
		}
		return p
	}
	sys := NewSrvSys(x, fs.OpsValue(false, false), fs, ms, true, int(c.cfg("maxpend")), int(c.cfg("debug")))
	sc := sys.AddConn(0, int(c.cfg("seg")))
	p := sc.Peer
	n := int(c.cfg("nreq"))
	holdpct := int(c.cfg("holdpct"))
	r := NewRand(c.Seed ^ 0x7e55)
	done := false
	settled := 0
	releaseOK := true
	eager := c.cfg("eager") != 0
	var fresh []*Sent
	cancelled := map[*Sent]bool{}
	rt.Go(rt.SiteSpawn, func() {
		rt.SetName("client")
		if rr := p.Call(&Msg{Type: Tversion, Tag: NOTAG, Msize: ms, Version: "9P2000.u"}); rr == nil || rr.M == nil || rr.M.Type != Rversion {
			x.Violate("setup", "Tversion failed")
			return
		}
		if rr := p.Call(&Msg{Type: Tattach, Tag: 1, Fid: 0, Afid: NOFID, Uname: "u1", Nuname: 1}); rr == nil || rr.M == nil || rr.M.Type != Rattach {
			x.Violate("setup", "Tattach failed")
			return
		}
		if eager {
			if rr := p.Call(&Msg{Type: Topen, Tag: 1, Fid: 0, Mode: 0}); rr == nil || rr.M == nil || rr.M.Type != Ropen {
				x.Violate("setup", "Topen failed")
				return
			}
		}
		for round := 0; round < int(c.cfg("rounds")) && eager; round++ {
			// every request outstanding at the Tversion is parked in the implementation (or queued behind one that
			// is) and stays there: none of them can be answered any more. Their tags are used again at once, for
			// reads that each ask for a different count; some of those are cancelled with Tflush and the tag used
			// a third time after the Rflush. Every reply is attributed by tag to the newest request under it.
			releaseOK = false
			var old []*Sent
			for i := 0; i < n; i++ {
				tag := uint16(10 + i)
				holdTag[tag] = true
				old = append(old, p.Write(&Msg{Type: Tstat, Tag: tag, Fid: 0})[0])
			}
			want := settled + 1
			rt.YieldUntil(rt.SiteActor, func() bool { return settled >= want || p.EOF })
			answered := 0
			for _, s := range old {
				if s.Reply != nil {
					answered++
				}
			}
			if answered > 0 {
				x.Violate("setup", "%d parked requests were answered", answered)
				return
			}
			if vr := p.Call(&Msg{Type: Tversion, Tag: NOTAG, Msize: ms, Version: "9P2000.u"}); vr == nil || vr.M == nil || vr.M.Type != Rversion {
				x.Violate("r3-no-reply", "the mid-session Tversion was not answered with Rversion")
				return
			}
			for _, s := range old {
				p.dropOut(s)
			}
			x.Probe("requests-dropped-by-tversion")
			// fid 0 is gone with the session: attach and open again, under tags that were not outstanding
			if rr := p.Call(&Msg{Type: Tattach, Tag: 1, Fid: 0, Afid: NOFID, Uname: "u1", Nuname: 1}); rr == nil || rr.M == nil {
				x.Violate("r3-no-reply", "Tattach after the mid-session Tversion got no reply")
				return
			} else if rr.M.Type == Rattach {
				p.Call(&Msg{Type: Topen, Tag: 1, Fid: 0, Mode: 0})
			}
			var live []*Sent
			for i := 0; i < n; i++ {
				tag := uint16(10 + i)
				holdTag[tag] = r.Pct(holdpct)
				s := p.Write(&Msg{Type: Tread, Tag: tag, Fid: 0, Offset: 0, Count: uint32(100 + i)})[0]
				live = append(live, s)
				fresh = append(fresh, s)
			}
			releaseOK = true
			for k := r.Intn(n + 1); k > 0; k-- {
				i := r.Intn(n)
				y := live[i]
				if y.M.Count >= 300 {
					continue // cancelled before
				}
				for j := r.Intn(6); j > 0; j-- {
					rt.Yield(rt.SiteActor)
				}
				fl := p.Call(&Msg{Type: Tflush, Tag: uint16(200 + i), Oldtag: y.M.Tag})
				if fl == nil || fl.M == nil || fl.M.Type != Rflush {
					x.Violate("r3-no-reply", "Tflush of tag %d got %v", y.M.Tag, fl)
					return
				}
				if y.Reply == nil {
					p.dropOut(y) // cancelled: no reply will come
					cancelled[y] = true
					x.Probe("cancelled-after-tversion")
				}
				holdTag[y.M.Tag] = r.Pct(holdpct)
				z := p.Write(&Msg{Type: Tread, Tag: y.M.Tag, Fid: 0, Offset: 0, Count: uint32(300 + i)})[0]
				live[i] = z
				fresh = append(fresh, z)
			}
			rt.YieldUntil(rt.SiteActor, func() bool {
				if p.EOF {
					return true
				}
				for _, s := range live {
					if s.Reply == nil {
						return false
					}
				}
				return true
			})
			want = settled + 1
			rt.YieldUntil(rt.SiteActor, func() bool { return settled >= want || p.EOF })
		}
		for round := 0; round < int(c.cfg("rounds")) && !eager; round++ {
			var ms1 []*Msg
			for i := 0; i < n; i++ {
				tag := uint16(10 + i)
				holdTag[tag] = r.Pct(holdpct)
				ms1 = append(ms1, &Msg{Type: Tstat, Tag: tag, Fid: 0})
			}
			ver := &Msg{Type: Tversion, Tag: NOTAG, Msize: ms, Version: "9P2000.u"}
			var old []*Sent
			var vs *Sent
			if c.cfg("sameseg") != 0 {
				ss := p.Write(append(ms1, ver)...)
				old, vs = ss[:n], ss[n]
			} else {
				for _, m := range ms1 {
					old = append(old, p.Write(m)[0])
				}
				vs = p.Write(ver)[0]
			}
			rt.YieldUntil(rt.SiteActor, func() bool { return vs.Reply != nil || p.EOF })
			if vs.Reply == nil || vs.Reply.M == nil || vs.Reply.M.Type != Rversion {
				x.Violate("r3-no-reply", "the mid-session Tversion was not answered with Rversion")
				return
			}
			// wait until the server has nothing left to do for the old requests: parked ones released, everything
			// settled (the root flips settled at quiescence). Those without a reply by then were dropped by Tversion.
			want := settled + 1
			rt.YieldUntil(rt.SiteActor, func() bool { return settled >= want || p.EOF })
			dropped := 0
			for _, s := range old {
				if s.Reply == nil {
					p.dropOut(s)
					dropped++
				}
			}
			if dropped > 0 {
				x.Probe("requests-dropped-by-tversion")
			}
			for i := range holdTag {
				holdTag[i] = false
			}
			// the same tags again
			var again []*Msg
			for i := 0; i < n; i++ {
				again = append(again, &Msg{Type: Tstat, Tag: uint16(10 + i), Fid: 0})
			}
			ss := p.Write(again...)
			fresh = append(fresh, ss...)
			rt.YieldUntil(rt.SiteActor, func() bool {
				if p.EOF {
					return true
				}
				for _, s := range ss {
					if s.Reply == nil {
						return false
					}
				}
				return true
			})
		}
		done = true
	})
	for {
		if !x.Run() {
			return
		}
		if held := fs.HeldInvs(); len(held) > 0 && releaseOK {
			held[x.S.Choose(len(held))].Released = true
			continue
		}
		if done || len(x.Res.Viol) > 0 || settled > 16 {
			break
		}
		settled++ // quiescent with nothing parked: the client may go on
	}
	for i, s := range fresh {
		if cancelled[s] && s.Reply == nil {
			continue
		}
		if s.Reply == nil || s.Reply.M == nil {
			x.Violate("r3-no-reply", "%s, sent after the Rversion of a mid-session Tversion under a tag that was outstanding before it, got no reply (request %d of %d)", s.M, i, len(fresh))
			return
		}
		if s.M.Type == Tread {
			// (the walk-less fid 0 may be a directory to the framework: an Rerror from a rule of its own is fine,
			// a reply meant for another request is not)
			if s.Reply.M.Type == Rread && len(s.Reply.M.Data) != int(s.M.Count) {
				x.Violate("r5-content", "%s was answered with %d bytes: the reply of another request under the same tag", s.M, len(s.Reply.M.Data))
			} else if s.Reply.M.Type != Rread && s.Reply.M.Type != Rerror {
				x.Violate("r4-type", "%s was answered %s", s.M, s.Reply.M)
			}
			continue
		}
		if s.Reply.M.Type != Rstat {
			x.Violate("r4-type", "%s was answered %s", s.M, s.Reply.M)
		}
	}
	if !done && len(x.Res.Viol) == 0 {
		x.Violate("r3-no-reply", "the session did not finish")
	}
	for _, rv := range p.Recv {
		if rv.For == nil && rv.M != nil {
			x.Violate("r1-no-outstanding", "the server sent %s although no request with that tag was outstanding (the requests that were outstanding at the Tversion had been answered or dropped and the server was idle)", rv.M)
			break
		}
	}
	_ = fmt.Sprint
}

// C03, stratum "clunk-and-use-pipelined": a Tclunk (or Tremove) of a fid and further requests naming the same fid
// are written together. Whatever the later ones are answered (served or 'unknown fid'), every one of them gets
// exactly one reply.
func c03SameFidGen(r *Rand, c *Case) {
	c.Stratum = "clunk-and-use-pipelined"
	c.Cfg["samefid"] = 1
	c.Cfg["rounds"] = int64(r.Range(3, 12))
	c.Cfg["sameseg"] = int64(r.Intn(2))
}

func c03SameFid(x *Ctx) {
	c := x.C
	ms := uint32(1024)
	fs := NewScriptFS(x)
	fs.PlanFor = func(inv *Inv) *Plan { return &Plan{NWqid: -1, NData: -1, QType: qDir} }
	sys := NewSrvSys(x, fs.OpsValue(false, false), fs, ms, true, int(c.cfg("maxpend")), int(c.cfg("debug")))
	sc := sys.AddConn(0, int(c.cfg("seg")))
	p := sc.Peer
	r := NewRand(c.Seed ^ 0x5a3e)
	done := false
	rt.Go(rt.SiteSpawn, func() {
		rt.SetName("client")
		if rr := p.Call(&Msg{Type: Tversion, Tag: NOTAG, Msize: ms, Version: "9P2000.u"}); rr == nil || rr.M == nil || rr.M.Type != Rversion {
			x.Violate("setup", "Tversion failed")
			return
		}
		if rr := p.Call(&Msg{Type: Tattach, Tag: 1, Fid: 0, Afid: NOFID, Uname: "u1", Nuname: 1}); rr == nil || rr.M == nil || rr.M.Type != Rattach {
			x.Violate("setup", "Tattach failed")
			return
		}
		tag := uint16(10)
		for round := 0; round < int(c.cfg("rounds")); round++ {
			if rr := p.Call(&Msg{Type: Twalk, Tag: 2, Fid: 0, Newfid: 1, Wname: []string{"a"}}); rr == nil || rr.M == nil || rr.M.Type != Rwalk {
				x.Violate("r3-no-reply", "walk to fid 1 in round %d answered %v", round, rr)
				return
			}
			var ms1 []*Msg
			tag++
			ms1 = append(ms1, &Msg{Type: uint8(r.Pick(Tclunk, Tclunk, Tremove)), Tag: tag, Fid: 1})
			for k := r.Range(1, 3); k > 0; k-- {
				tag++
				ms1 = append(ms1, &Msg{Type: uint8(r.Pick(Tstat, Tstat, Tread, Tclunk)), Tag: tag, Fid: 1, Count: 5})
			}
			var ss []*Sent
			if c.cfg("sameseg") != 0 {
				ss = p.Write(ms1...)
			} else {
				for _, m := range ms1 {
					ss = append(ss, p.Write(m)[0])
				}
			}
			rt.YieldUntil(rt.SiteActor, func() bool { return allReplied(ss) || p.EOF })
			if !allReplied(ss) {
				return
			}
			// the number must be usable again, or still be valid: either way a clunk now is answered
			tag++
			if rr := p.Call(&Msg{Type: Tclunk, Tag: tag, Fid: 1}); rr == nil || rr.M == nil {
				return
			}
		}
		done = true
	})
	if !x.Run() {
		return
	}
	for _, s := range p.Sent {
		if s.Reply == nil {
			x.Violate("r3-no-reply", "%s, written together with other requests naming the same fid, got no reply", s.M)
			return
		}
	}
	if !done && len(x.Res.Viol) == 0 {
		x.Violate("r3-no-reply", "the session did not finish")
	}
	for _, rv := range p.Recv {
		if rv.For == nil && rv.M != nil {
			x.Violate("r1-no-outstanding", "the server sent %s although no request with that tag was outstanding", rv.M)
			break
		}
	}
	x.Probe("clunk-and-use-pipelined")
}
