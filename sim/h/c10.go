package h

// C10 — client calls fail promptly, never hang, when the connection fails
// (DESIGN.md §4 C10). System: real library client <-> scripted server peer
// over the simulated transport.

import (
	"bytes"
	"fmt"

	"github.com/rminnich/go9p"
	"github.com/rminnich/go9p/vsim/rt"
)

const (
	c10None = iota
	c10CutEOF
	c10CutReset
	c10WriteErr
	c10Unmount
	c10Garbage
	c10UnknownTag
	c10SrvClose
	c10Stall
	c10StallCut // the peer stops reading (the client's writer blocks), then only the server-to-client stream ends
	c10NFaults
)

var c10FaultNames = []string{"none", "cut-eof", "cut-reset", "write-err", "local-close", "garbage", "unknown-tag", "peer-close", "stall-then-close", "stall-then-cut"}

func init() { register(&Property{ID: "C10", Gen: c10Gen, Exec: c10Exec}) }

func genCallerOps(r *Rand, n int, maxCount int) []Op {
	var ops []Op
	for i := 0; i < n; i++ {
		off := int64(i*4096 + r.Intn(100))
		switch r.Intn(7) {
		case 6:
			ops = append(ops, Op{K: "tagreads", A: []int64{int64(i), int64(r.Range(1, 5)), int64(r.Pick(1, 8, 30))}})
		case 0, 1, 2:
			ops = append(ops, Op{K: "read", A: []int64{off, int64(r.Pick(0, 1, 7, 40, maxCount/2, maxCount, maxCount+9))}})
		case 3:
			ops = append(ops, Op{K: "write", A: []int64{off, int64(r.Pick(0, 1, 9, 33, maxCount/2, maxCount))}})
		case 4:
			ops = append(ops, Op{K: "stat"})
		case 5:
			ops = append(ops, Op{K: "walk", A: []int64{int64(r.Intn(4))}})
		}
	}
	return ops
}

func c10Gen(seed uint64, run int, tier string) *Case {
	r := NewRand(seed)
	c := &Case{Cfg: map[string]int64{}}
	genCommon(r, c.Cfg)
	msize := r.Pick(128, 160, 256, 1024, 8192)
	c.Cfg["msize"] = int64(msize)
	c.Cfg["smsize"] = int64(r.Pick(msize, msize, 128, 4096))
	c.Cfg["dotu"] = int64(r.Intn(2))
	c.Cfg["sdotu"] = int64(r.Intn(2))
	c.Cfg["cap"] = int64(r.Pick(0, 0, 0, 16, 200))
	c.Cfg["holdpct"] = int64(r.Pick(0, 0, 20, 50))
	maxCallers := 4
	if tier == "thorough" {
		maxCallers = 8
	}
	c.Cfg["late"] = int64(r.Range(0, 2))
	switch {
	case run%5 == 0:
		// fault_enumeration stratum: fixed small session, cut offset enumerated
		c.Stratum = "enum"
		c.Cfg["msize"], c.Cfg["smsize"], c.Cfg["cap"], c.Cfg["holdpct"] = 256, 256, 0, 0
		c.Cfg["dotu"], c.Cfg["sdotu"] = 1, 1
		k := run / 5
		c.Cfg["fault"] = int64(c10CutEOF + k%2)
		c.Cfg["early"] = 1
		c.Cfg["fparam"] = int64((k / 2 * 7) % 601)
		for i := 0; i < 3; i++ {
			c.Ops = append(c.Ops, Op{K: "caller", Sub: []Op{{K: "read", A: []int64{int64(i * 4096), int64(10 + i)}}, {K: "stat"}}})
		}
		return c
	case run%5 == 1 && run%10 == 1:
		c.Stratum = "control"
		c.Cfg["fault"] = c10None
	default:
		c.Stratum = "random"
		c.Cfg["fault"] = int64(1 + r.Intn(c10NFaults-1))
		if c.Cfg["fault"] == c10StallCut {
			c.Cfg["cap"] = int64(r.Pick(16, 16, 200)) // the writer must be able to block
		}
	}
	c.Cfg["early"] = int64(r.Pick(0, 0, 0, 1))
	if c.Cfg["early"] == 1 {
		c.Cfg["fparam"] = int64(r.Intn(60))
	} else {
		c.Cfg["fparam"] = int64(r.Intn(300))
	}
	c.Cfg["fparam2"] = int64(r.Intn(64))
	n := r.Range(1, maxCallers)
	for i := 0; i < n; i++ {
		c.Ops = append(c.Ops, Op{K: "caller", Sub: genCallerOps(r, r.Range(1, 4), msize)})
	}
	return c
}

type c10Call struct {
	Caller, Idx int
	Kind        string
	Key         string
	Occ         int
	Inv, Ret    int
	Returned    bool
	Err         error
	Good        bool
	Bad         string
	Late        bool
	ExpectedErr bool
}

func errFor(off uint64) (string, uint32) {
	return fmt.Sprintf("scripted failure %d", off&0xFFFFFF), uint32(off>>3)&0x7FFF + 1
}

type c10State struct {
	x        *Ctx
	clnt     *go9p.Clnt
	calls    []*c10Call
	keyOcc   map[string]int
	tagOrder bool          // judge the completion order of pipelined Tag requests (C09)
	pipeFids []uint32      // fids on which a Tag pipeline of several request kinds is running
	prevErr  map[int]error // per caller: the error its previous failing call returned
	prevWant map[int]string
	gs       []*rt.G
}

func (st *c10State) begin(caller, idx int, kind, key string, late bool) *c10Call {
	cl := &c10Call{Caller: caller, Idx: idx, Kind: kind, Key: key, Occ: st.keyOcc[key], Inv: rt.Step(), Late: late}
	st.keyOcc[key]++
	st.calls = append(st.calls, cl)
	return cl
}

func (cl *c10Call) end(err error, bad string) {
	cl.Ret = rt.Step()
	cl.Returned = true
	cl.Err = err
	cl.Bad = bad
	cl.Good = err == nil && bad == ""
}

func reqKey(m *Msg) string {
	switch m.Type {
	case Tread, Twrite:
		return fmt.Sprintf("%d/%d/%d", m.Type, m.Fid, m.Offset)
	case Twalk:
		return fmt.Sprintf("%d/%d/%d/%d", m.Type, m.Fid, m.Newfid, len(m.Wname))
	case Tattach, Tauth:
		return fmt.Sprintf("%d/%d", m.Type, m.Fid)
	case Tversion:
		return fmt.Sprintf("%d", m.Type)
	}
	return fmt.Sprintf("%d/%d", m.Type, m.Fid)
}

var walkNames = []string{"a", "bb", "ccc", "dddd"}

// runCallerOps performs a caller's scripted calls on its own fid; every call
// is logged with invoke/return steps and checked against the scripted reply.
func (st *c10State) runCallerOps(ci int, ops []Op, late bool) {
	clnt := st.clnt
	fid := clnt.FidAlloc()
	cl := st.begin(ci, -2, "walk", fmt.Sprintf("%d/%d/%d/%d", Twalk, clnt.Root.Fid, fid.Fid, 1), late)
	qids, err := clnt.Walk(clnt.Root, fid, []string{"x"})
	bad := ""
	if err == nil && (len(qids) != 1 || qids[0].Path != walkQid(clnt.Root.Fid, 0, "x").Path) {
		bad = fmt.Sprintf("walk returned qids %v", qids)
	}
	cl.end(err, bad)
	if err != nil {
		return
	}
	cl = st.begin(ci, -1, "open", fmt.Sprintf("%d/%d", Topen, fid.Fid), late)
	err = clnt.Open(fid, go9p.ORDWR)
	bad = ""
	if err == nil && fid.Qid.Path != uint64(fid.Fid)^0x5555 {
		bad = fmt.Sprintf("open returned qid path %d for fid %d", fid.Qid.Path, fid.Fid)
	}
	cl.end(err, bad)
	if err != nil {
		return
	}
	for i, op := range ops {
		switch op.K {
		case "read":
			off, cnt := uint64(op.a(0)), uint32(op.a(1))
			cl := st.begin(ci, i, "read", fmt.Sprintf("%d/%d/%d", Tread, fid.Fid, off), late)
			data, err := clnt.Read(fid, off, cnt)
			bad := ""
			if err == nil {
				if cnt > fid.Iounit {
					cnt = fid.Iounit
				}
				if !bytes.Equal(data, pattern(int(cnt), uint64(fid.Fid), off, uint64(cnt))) {
					bad = fmt.Sprintf("read(off=%d,count=%d) returned %d bytes that are not this request's data", off, cnt, len(data))
				}
			}
			cl.end(err, bad)
		case "readerr", "readwrong":
			// the scripted server answers these with an Rerror / a reply of the wrong type
			off, cnt := uint64(op.a(0)), uint32(op.a(1))
			cl := st.begin(ci, i, op.K, fmt.Sprintf("%d/%d/%d", Tread, fid.Fid, off), late)
			_, err := clnt.Read(fid, off, cnt)
			bad := ""
			if err == nil {
				bad = "the server answered with an error / a wrong reply type but the call returned success"
			} else if op.K == "readerr" {
				e, ok := err.(*go9p.Error)
				wantTxt, wantNum := errFor(off)
				if !ok || e.Err != wantTxt {
					bad = fmt.Sprintf("Rerror text %q came back as %v", wantTxt, err)
				} else if clnt.Dotu && e.Errornum != wantNum {
					bad = fmt.Sprintf("Rerror number %d came back as %d", wantNum, e.Errornum)
				}
			}
			if bad == "" && op.K == "readerr" && st.tagOrder {
				// the error an earlier failing call returned is that call's for good: a later failing call does
				// not change it
				if st.prevErr != nil {
					if e, ok := st.prevErr[ci].(*go9p.Error); ok && e != nil && e.Err != st.prevWant[ci] {
						bad = fmt.Sprintf("the error returned by an earlier call read %q; after a later failing call it reads %q", st.prevWant[ci], e.Err)
					}
				} else {
					st.prevErr, st.prevWant = map[int]error{}, map[int]string{}
				}
				st.prevErr[ci] = err
				st.prevWant[ci], _ = errFor(off)
			}
			cl.end(nil, bad)
			if bad == "" {
				cl.Good = true
			}
			cl.ExpectedErr = true
		case "write":
			off, cnt := uint64(op.a(0)), int(op.a(1))
			if cnt > int(fid.Iounit) {
				cnt = int(fid.Iounit)
			}
			cl := st.begin(ci, i, "write", fmt.Sprintf("%d/%d/%d", Twrite, fid.Fid, off), late)
			n, err := clnt.Write(fid, pattern(cnt, uint64(fid.Fid), off, 7), off)
			bad := ""
			if err == nil && n != cnt {
				bad = fmt.Sprintf("write of %d bytes returned %d", cnt, n)
			}
			cl.end(err, bad)
		case "helper":
			// the client's path helpers, also with names that do not exist (C09 only: several requests per call)
			cl := st.begin(ci, i, "helper", fmt.Sprintf("helper/%d/%d", ci, i), late)
			var err error
			wantErr := false
			switch op.a(0) % 6 {
			case 0:
				_, err = clnt.FStat("a/bb")
			case 1:
				_, err = clnt.FStat("nope")
				wantErr = true
			case 2:
				_, err = clnt.FStat("a/short/ccc")
				wantErr = true
			case 3:
				var f *go9p.File
				if f, err = clnt.FOpen("a", go9p.OREAD); err == nil {
					err = f.Close()
				}
			case 4:
				_, err = clnt.FOpen("a/nope", go9p.OREAD)
				wantErr = true
			case 5:
				_, err = clnt.FWalk("a/bb/short")
				wantErr = true
			}
			switch {
			case wantErr && err == nil:
				cl.end(nil, "a path helper succeeded for a name the server refused")
			case wantErr:
				cl.end(nil, "")
				cl.ExpectedErr = true
			default:
				cl.end(err, "")
			}
		case "misc":
			// the less common blocking calls, on a fid of their own: clone, Create, Wstat, Remove, and Auth (C09 only)
			cl := st.begin(ci, i, "misc", fmt.Sprintf("misc/%d/%d", ci, i), late)
			bad := ""
			nf := clnt.FidAlloc()
			_, err := clnt.Walk(fid, nf, nil)
			if err == nil {
				switch op.a(0) % 3 {
				case 0:
					if err = clnt.Create(nf, "made", 0o644, go9p.OWRITE, ""); err == nil && nf.Qid.Path != uint64(nf.Fid)^0x5555 {
						bad = fmt.Sprintf("Create returned qid path %d for fid %d", nf.Qid.Path, nf.Fid)
					}
				case 1:
					d := &go9p.Dir{Type: 0xFFFF, Dev: 0xFFFFFFFF, Mode: 0o600, Atime: 0xFFFFFFFF, Mtime: 0xFFFFFFFF, Length: ^uint64(0), Uidnum: 0xFFFFFFFF, Gidnum: 0xFFFFFFFF, Muidnum: 0xFFFFFFFF}
					err = clnt.Wstat(nf, d)
				case 2:
					var af *go9p.Fid
					if af, err = clnt.Auth(go9p.OsUsers.Uid2User(0), "tree"); err == nil {
						err = clnt.Clunk(af)
					}
				}
				if err == nil {
					err = clnt.Remove(nf)
				}
			}
			cl.end(err, bad)
		case "rpcnb":
			// ReqAlloc + the caller's own completion channel + Rpcnb + ReqFree (C09 only). Two requests share the
			// channel; the first to complete is freed (its slot goes back to the client's cache, where other
			// callers pick it up) while the second is still outstanding. Variant 0: both answered normally,
			// 1: the second with Rerror, 2: the second with a reply of the wrong type.
			variant := op.a(1) % 3
			cl := st.begin(ci, i, "rpcnb", fmt.Sprintf("rpcnb/%d/%d", ci, i), late)
			done := make(chan *go9p.Req, []int{4, 0, 1, 0}[(ci+int(op.a(0)))%4]) // also a channel without room: the completion waits for its taker
			var mine [2]*go9p.Req
			var offs [2]uint64
			var err error
			for k := 0; k < 2 && err == nil; k++ {
				offs[k] = uint64(1)<<40 | uint64(ci)<<24 | uint64(op.a(0))<<8 | uint64(k)
				if k == 1 && variant == 1 {
					offs[k] |= markErr
				} else if k == 1 && variant == 2 {
					offs[k] |= markWrong
				}
				r := clnt.ReqAlloc()
				r.Tc = clnt.NewFcall()
				r.Done = done
				if err = go9p.PackTread(r.Tc, fid.Fid, offs[k], 8); err == nil {
					err = clnt.Rpcnb(r)
				}
				mine[k] = r
			}
			if err != nil {
				cl.end(err, "")
				break
			}
			bad := ""
			for n := 0; n < 2 && bad == ""; n++ {
				for y := (ci + n) % 4; y > 0; y-- {
					rt.Yield(rt.SiteActor) // a taker that is not there yet when the reply comes
				}
				got := <-done
				k := -1
				for j, r := range mine {
					if r != nil && r == got {
						k = j
					}
				}
				switch {
				case k < 0:
					bad = "the completion channel of this caller's non-blocking requests delivered a request that is not (or no longer) this caller's"
				case offs[k]&(markErr|markWrong) == 0 && (got.Err != nil || got.Rc == nil || !bytes.Equal(got.Rc.Data, pattern(8, uint64(fid.Fid), offs[k], 8))):
					bad = fmt.Sprintf("non-blocking read completed with err=%v and data that is not this request's", got.Err)
				case offs[k]&(markErr|markWrong) != 0 && got.Err == nil:
					bad = "the server answered a non-blocking request with an error / a wrong reply type, but it completed without an error"
				case offs[k]&markErr != 0:
					wantTxt, _ := errFor(offs[k])
					if e, ok := got.Err.(*go9p.Error); !ok || e.Err != wantTxt {
						bad = fmt.Sprintf("Rerror text %q came back as %v", wantTxt, got.Err)
					}
				}
				if k >= 0 {
					clnt.ReqFree(got)
					mine[k] = nil
				}
				for y := 0; y < 6; y++ {
					rt.Yield(rt.SiteActor) // others run: one of them may draw the slot just freed
				}
			}
			cl.end(nil, bad)
			if variant != 0 {
				cl.ExpectedErr = true
			}
		case "tagreads":
			// pipelined Tag interface: n reads under one shared tag
			n, cnt := int(op.a(1)), uint32(op.a(2))
			if op.a(2) < 0 {
				cnt = clnt.Msize - 11 // the Rread is a frame of exactly msize bytes (the Tag interface does not clamp to iounit)
				st.x.Probe("reply-of-exactly-msize")
			}
			chcap := n
			if len(op.A) > 3 {
				// a consumer that takes completions one at a time, or with room for one only
				chcap = []int{n, 0, 1}[op.a(3)%3]
			}
			ch := make(chan *go9p.Req, chcap)
			nextDone := 0
			tag := clnt.TagAlloc(ch)
			var cls []*c10Call
			pending := 0
			if len(op.A) > 4 && st.tagOrder && op.a(4)%2 == 1 {
				// a request of another kind goes first under the same tag: it completes first
				// (the scripted server answers everything on this fid at once, in arrival order)
				st.pipeFids = append(st.pipeFids, fid.Fid)
				cl := st.begin(ci, i, "tagstat", fmt.Sprintf("%d/%d", Tstat, fid.Fid), late)
				cls = append(cls, cl)
				if err := tag.Stat(fid); err != nil {
					cl.end(err, "")
				} else {
					pending++
				}
			}
			for j := 0; j < n; j++ {
				off := uint64(1)<<40 + uint64(op.a(0))<<20 + uint64(j)*4096
				if len(op.A) > 4 && st.tagOrder {
					// some of the pipelined reads are refused, or answered with the wrong reply type
					switch (int(op.a(4)) + j) % 4 {
					case 1:
						off |= markErr
					case 2:
						if op.a(4) >= 2 {
							off |= markWrong
						}
					}
				}
				cl := st.begin(ci, i, "tagread", fmt.Sprintf("%d/%d/%d", Tread, fid.Fid, off), late)
				cls = append(cls, cl)
				if err := tag.Read(fid, off, cnt); err != nil {
					cl.end(err, "")
				} else {
					pending++
				}
			}
			var prevDone *go9p.Req
			freeDone := len(op.A) > 4 && op.a(4)%2 == 0 // completed requests are handed back with Tag.ReqFree, while others are outstanding
			for ; pending > 0; pending-- {
				rt.Yield(rt.SiteActor)
				if prevDone != nil && freeDone {
					tag.ReqFree(prevDone)
					st.x.Probe("tag-request-freed-while-others-outstanding")
				}
				r := <-ch
				prevDone = r
				rt.Yield(rt.SiteActor)
				var cl *c10Call
				for _, k := range cls {
					if !k.Returned && r.Tc != nil && (k.Key == fmt.Sprintf("%d/%d/%d", Tread, r.Tc.Fid, r.Tc.Offset) || (r.Tc.Type == go9p.Tstat && k.Key == fmt.Sprintf("%d/%d", Tstat, r.Tc.Fid))) {
						cl = k
						break
					}
				}
				if cl == nil {
					st.x.Violate("k2-content", "Tag interface completed a request nobody issued")
					continue
				}
				if st.tagOrder {
					// requests sharing a tag are completed in the order issued
					for ; nextDone < len(cls) && cls[nextDone].Returned; nextDone++ {
					}
					if nextDone < len(cls) && cls[nextDone] != cl {
						st.x.Violate("c4-tag-order", "pipelined reads sharing a tag were issued in the order of their offsets, but the read at %d completed before the one at %s (consumer channel capacity %d)", r.Tc.Offset, cls[nextDone].Key, chcap)
					}
				}
				err, bad := r.Err, ""
				if r.Tc.Type == go9p.Tstat {
					if err == nil && (r.Rc == nil || r.Rc.Type != go9p.Rstat || r.Rc.Dir.Name != statFor(fid.Fid).Name) {
						bad = "pipelined stat completed with something that is not this request's reply"
					}
					cl.end(err, bad)
					continue
				}
				if flagged := r.Tc.Offset&(markErr|markWrong) != 0; flagged && st.tagOrder {
					// the server refused this one / answered it with the wrong type: it must complete with an error
					if err == nil {
						bad = "the server answered a pipelined request with an error / a wrong reply type, but it completed without an error"
					} else if wantTxt, _ := errFor(r.Tc.Offset); r.Tc.Offset&markErr != 0 {
						if e, ok := err.(*go9p.Error); !ok || e.Err != wantTxt {
							bad = fmt.Sprintf("Rerror text %q came back as %v", wantTxt, err)
						}
					}
					cl.end(nil, bad)
					cl.ExpectedErr = true
					continue
				}
				if err == nil && r.Rc == nil {
					bad = "request completed with neither reply nor error"
				} else if err == nil && r.Rc.Type == go9p.Rerror {
					err = fmt.Errorf("Rerror %s", r.Rc.Error)
				} else if err == nil && !bytes.Equal(r.Rc.Data, pattern(int(cnt), uint64(fid.Fid), r.Tc.Offset, uint64(cnt))) {
					bad = "pipelined read returned data that is not this request's"
				}
				cl.end(err, bad)
			}
			rt.Yield(rt.SiteActor)
			if prevDone != nil && freeDone {
				tag.ReqFree(prevDone)
			}
			clnt.TagFree(tag)
			for k, f := range st.pipeFids {
				if f == fid.Fid {
					st.pipeFids = append(st.pipeFids[:k], st.pipeFids[k+1:]...)
					break
				}
			}
			rt.Yield(rt.SiteActor)
		case "stat":
			cl := st.begin(ci, i, "stat", fmt.Sprintf("%d/%d", Tstat, fid.Fid), late)
			d, err := clnt.Stat(fid)
			bad := ""
			if err == nil {
				want := statFor(fid.Fid)
				if d.Name != want.Name || d.Length != want.Length || d.Mtime != want.Mtime {
					bad = fmt.Sprintf("stat returned name=%q length=%d, want %q %d", d.Name, d.Length, want.Name, want.Length)
				}
			}
			cl.end(err, bad)
		case "walk":
			n := int(op.a(0))
			nf := clnt.FidAlloc()
			cl := st.begin(ci, i, "walk", fmt.Sprintf("%d/%d/%d/%d", Twalk, clnt.Root.Fid, nf.Fid, n), late)
			qids, err := clnt.Walk(clnt.Root, nf, walkNames[:n])
			bad := ""
			if err == nil {
				if len(qids) != n {
					bad = fmt.Sprintf("walk of %d names returned %d qids", n, len(qids))
				}
				for j := range qids {
					if j < n && qids[j].Path != walkQid(clnt.Root.Fid, j, walkNames[j]).Path {
						bad = "walk returned another request's qids"
					}
				}
			}
			cl.end(err, bad)
		}
	}
	cl = st.begin(ci, len(ops), "clunk", fmt.Sprintf("%d/%d", Tclunk, fid.Fid), late)
	err = clnt.Clunk(fid)
	cl.end(err, "")
}

func c10Exec(x *Ctx) {
	c := x.C
	msize := uint32(c.cfg("msize"))
	fault := int(c.cfg("fault"))
	fparam := int(c.cfg("fparam"))
	fparam2 := int(c.cfg("fparam2"))
	early := c.cfg("early") != 0
	go9p.DefaultDebuglevel = int(c.cfg("debug"))
	go9p.DefaultLogger = nil
	if go9p.DefaultDebuglevel != 0 {
		go9p.DefaultLogger = go9p.NewLogger(64)
	}
	cs, cc := rt.NewPipePair(0, "srv", "clnt")
	cc.Out.Cap = int(c.cfg("cap"))
	cc.In.Seg = int(c.cfg("seg"))
	cs.In.Seg = int(c.cfg("seg"))
	peer := NewSrvPeer(x, cs, uint32(c.cfg("smsize")), c.cfg("sdotu") != 0)
	peer.NoDupCheck = true
	peer.NoTagRules = true
	st := &c10State{x: x, keyOcc: map[string]int{}}
	fired := false
	nData := 0
	holdpct := int(c.cfg("holdpct"))

	peer.Handle = func(p *SrvPeer, r *PReq) {
		rep := StdReply(r.M, p.Msize, c.cfg("sdotu") != 0)
		if r.M.Type == Twrite && !bytes.Equal(r.M.Data, pattern(len(r.M.Data), uint64(r.M.Fid), r.M.Offset, 7)) {
			x.Violate("req-corrupt", "Twrite payload arrived altered (fid %d offset %d)", r.M.Fid, r.M.Offset)
		}
		if r.M.Type == Tversion {
			p.Dotu = rep.Version == "9P2000.u"
			p.Send(r, Encode(rep, false))
			return
		}
		b := Encode(rep, p.Dotu)
		if r.M.Type != Tattach {
			nData++
			if (fault == c10Garbage || fault == c10UnknownTag) && !early && nData-1 == fparam%6 && !fired {
				fired = true
				if fault == c10UnknownTag {
					rep.Tag = r.M.Tag ^ 0x4000
					b = Encode(rep, p.Dotu)
					x.Fault("unknown-tag")
				} else {
					b = garble(b, fparam2, p.Msize, x) // sizes relative to what was negotiated, which may be less than the client proposed
				}
				r.Bad = true
			} else if holdpct > 0 && rt.Choose(100) < holdpct {
				r.Hold = true
				x.Fault("hold")
			}
		} else if (fault == c10Garbage || fault == c10UnknownTag) && early && !fired {
			fired = true
			if fault == c10UnknownTag {
				rep.Tag = r.M.Tag ^ 0x4000
				b = Encode(rep, p.Dotu)
				x.Fault("unknown-tag")
			} else {
				b = garble(b, fparam2, p.Msize, x) // sizes relative to what was negotiated, which may be less than the client proposed
			}
			r.Bad = true
		}
		if r.M.Type == Tread && r.M.Offset >= 1<<40 {
			r.Hold = false
			p.Send(r, b) // requests sharing a tag are answered in arrival order
			return
		}
		p.SendLater(r, b)
	}
	peer.Start()

	if early {
		switch fault {
		case c10CutEOF, c10CutReset:
			cc.In.CutAt = fparam
			cc.In.CutReset = fault == c10CutReset
		case c10WriteErr:
			cc.Out.WFailAt = fparam
		}
	}

	mounted := false
	var mountErr error
	mountCall := &c10Call{Kind: "mount", Inv: 0}
	st.calls = append(st.calls, mountCall)
	mainG := rt.Go(rt.SiteSpawn, func() {
		rt.SetName("main")
		clnt, err := go9p.Connect(cc, msize, c.cfg("dotu") != 0)
		if err == nil {
			var fid *go9p.Fid
			fid, err = clnt.Attach(nil, go9p.OsUsers.Uid2User(0), "")
			if err == nil {
				clnt.Root = fid
			}
		}
		mountCall.end(err, "")
		if err != nil {
			mountErr = err
			return
		}
		mounted = true
		st.clnt = clnt
		if !early {
			switch fault {
			case c10CutEOF, c10CutReset:
				cc.In.CutAt = cc.In.Consumed + fparam
				cc.In.CutReset = fault == c10CutReset
			case c10WriteErr:
				cc.Out.WFailAt = cc.Out.Written + fparam
			}
		}
		base := rt.Step()
		switch fault {
		case c10Unmount:
			rt.Go(rt.SiteSpawn, func() {
				rt.SetName("unmounter")
				rt.YieldUntil(rt.SiteActor, func() bool { return x.S.Steps >= base+fparam })
				fired = true
				x.Fault("local-close")
				clnt.Unmount()
			})
		case c10SrvClose:
			rt.Go(rt.SiteSpawn, func() {
				rt.SetName("peer-closer")
				rt.YieldUntil(rt.SiteActor, func() bool { return x.S.Steps >= base+fparam })
				fired = true
				x.Fault("peer-close")
				cs.Close()
			})
		case c10Stall, c10StallCut:
			rt.Go(rt.SiteSpawn, func() {
				rt.SetName("staller")
				rt.YieldUntil(rt.SiteActor, func() bool { return x.S.Steps >= base+fparam })
				peer.StopReading = true
				x.Fault("stall")
			})
		}
		for ci, op := range c.Ops {
			if op.K != "caller" {
				continue
			}
			ci, op := ci, op
			g := rt.Go(rt.SiteSpawn, func() {
				rt.SetName(fmt.Sprintf("caller%d", ci))
				st.runCallerOps(ci, op.Sub, false)
			})
			st.gs = append(st.gs, g)
		}
	})
	st.gs = append(st.gs, mainG)

	// phase 1: until quiescence with the fault (if any) landing inside the work
	if !x.Run() {
		return
	}
	// phase 2: release withheld replies; a stalled peer now goes away
	holdpct = 0
	for _, r := range peer.Reqs {
		r.Hold = false
	}
	if fault == c10StallCut {
		// the peer keeps not reading: the client's writer may stay blocked for ever; its callers may not
		fired = true
		x.Fault("cut-eof")
		cc.In.CutAt = cc.In.Consumed
	}
	if fault == c10Stall {
		fired = true
		x.Fault("peer-close")
		cs.Reset()
		peer.StopReading = false
	}
	if !x.Run() {
		return
	}
	// phase 3: callers arriving after everything has settled
	if mounted {
		for i := 0; i < int(c.cfg("late")); i++ {
			ci := 100 + i
			g := rt.Go(rt.SiteSpawn, func() {
				rt.SetName(fmt.Sprintf("late%d", ci))
				st.runCallerOps(ci, []Op{{K: "stat"}}, true)
			})
			st.gs = append(st.gs, g)
		}
		if !x.Run() {
			return
		}
	}
	_ = mountErr

	// ---- oracle ----
	if cc.In.CutFired {
		fired = true
		x.Fault(c10FaultNames[fault])
	}
	if cc.Out.WFailFire {
		fired = true
		x.Fault("write-err")
	}
	if peer.FailPos >= 0 && fault == c10Garbage {
		// counted in garble()
	}
	x.FaultN("seg-split", cc.In.Splits+cs.In.Splits)
	x.FaultN("coalesce", cc.In.Coalesced+cs.In.Coalesced)
	if cc.Out.Cap > 0 {
		x.Fault("backpressure-cap")
	}
	// a bad frame only counts as a failure once the client has read into it
	badSeen := peer.FailPos >= 0 && cc.In.Consumed > peer.FailPos
	if (fault == c10Garbage || fault == c10UnknownTag) && !badSeen && !cc.In.CutFired {
		fired = false
	}

	// k1: nobody hangs
	for _, g := range st.gs {
		if !g.Done() {
			x.Violate("k1-hang", "caller goroutine %s (%s) never returned: %s", g.ID, g.Name, x.S.Describe(g))
		}
	}
	byKey := map[string][]*PReq{}
	for _, r := range peer.Reqs {
		k := reqKey(r.M)
		byKey[k] = append(byKey[k], r)
	}
	firstFail := -1
	for _, cl := range st.calls {
		if cl.Returned && cl.Err != nil && (firstFail < 0 || cl.Ret < firstFail) {
			firstFail = cl.Ret
		}
	}
	consumed := cc.In.Consumed
	nOut := 0
	for _, cl := range st.calls {
		if !cl.Returned {
			nOut++
			continue
		}
		if cl.Kind == "mount" {
			continue
		}
		var pr *PReq
		if l := byKey[cl.Key]; cl.Occ < len(l) {
			pr = l[cl.Occ]
		}
		complete := pr != nil && pr.Answered && !pr.Bad && pr.ReplyEnd <= consumed && (peer.FailPos < 0 || pr.ReplyEnd <= peer.FailPos)
		if cl.Err == nil {
			if cl.Bad != "" {
				x.Violate("k2-content", "call %s by caller %d succeeded with wrong content: %s", cl.Kind, cl.Caller, cl.Bad)
			}
			if !complete {
				x.Violate("k2-phantom", "call %s (key %s) by caller %d returned success but its reply was never completely received (consumed=%d failpos=%d reply=%v)",
					cl.Kind, cl.Key, cl.Caller, consumed, peer.FailPos, prDesc(pr))
			}
			if firstFail >= 0 && cl.Inv > firstFail {
				x.Violate("k4-after-failure", "call %s by caller %d started at step %d, after a call had failed at step %d, yet succeeded", cl.Kind, cl.Caller, cl.Inv, firstFail)
			}
		} else {
			if complete {
				x.Violate("k3-lost-reply", "call %s (key %s) by caller %d failed with %q although its complete reply (stream bytes %d..%d) had been received (consumed=%d)",
					cl.Kind, cl.Key, cl.Caller, cl.Err, pr.ReplyStart, pr.ReplyEnd, consumed)
			}
			if !fired {
				x.Violate("k0-control", "call %s by caller %d failed with %q although no fault fired", cl.Kind, cl.Caller, cl.Err)
			}
		}
	}
	if mounted && !fired && mountCall.Err != nil {
		x.Violate("k0-control", "mount failed with %q although no fault fired", mountCall.Err)
	}
	if !mounted && mountCall.Returned && mountCall.Err == nil {
		x.Violate("k2-phantom", "mount returned success without a client")
	}
	if fired && nOut == 0 {
		nFailed := 0
		for _, cl := range st.calls {
			if cl.Err != nil {
				nFailed++
			}
		}
		if nFailed >= 2 {
			x.Probe("fault-with-2+-calls-failing")
		}
	}
	x.ProbeN("calls", len(st.calls))
	if peer.MaxOutst >= 2 {
		x.Probe("2+-outstanding-at-server")
	}
}

func prDesc(pr *PReq) string {
	if pr == nil {
		return "request never reached the server"
	}
	return fmt.Sprintf("answered=%v bad=%v bytes %d..%d", pr.Answered, pr.Bad, pr.ReplyStart, pr.ReplyEnd)
}

// garble turns a valid reply frame into one that cannot be parsed.
func garble(b []byte, variant int, msize uint32, x *Ctx) []byte {
	b = append([]byte(nil), b...)
	put := func(v uint32) { b[0], b[1], b[2], b[3] = byte(v), byte(v>>8), byte(v>>16), byte(v>>24) }
	if variant%29 == 28 {
		// a frame whose size is legal but whose count field, multiplied by the element size, wraps around:
		// Rwalk announcing 5042 (or 10083) qids and carrying 10 (or 3) bytes
		tag := []byte{b[5], b[6]}
		n, body := 5042, 10
		if variant%2 == 1 {
			n, body = 10083, 3
		}
		b = append([]byte{byte(9 + body), 0, 0, 0, Rwalk, tag[0], tag[1], byte(n), byte(n >> 8)}, make([]byte, body)...)
		x.Fault("garbage-count-wraps")
		return b
	}
	switch variant % 12 {
	case 0:
		b[4] = 0
		x.Fault("garbage-type")
	case 1:
		b[4] = 99
		x.Fault("garbage-type")
	case 2:
		b[4] = 133
		x.Fault("garbage-type")
	case 3:
		b[4] = 106 // Terror
		x.Fault("garbage-type")
	case 4:
		// body truncated by 1..3 bytes (size field and frame agree, content does not fit)
		k := 1 + variant/12%3
		if len(b)-k < 7 {
			k = len(b) - 6
			if k < 1 {
				k = 1
			}
		}
		b = b[:len(b)-k]
		put(uint32(len(b)))
		x.Fault("garbage-truncated")
	case 5:
		put(uint32(variant / 12 % 7)) // undersize 0..6
		x.Fault("size-undersize")
	case 6:
		put(msize + 1)
		x.Fault("size-oversize")
	case 7:
		put(8*msize + 1)
		x.Fault("size-oversize")
	case 8:
		put(0xFFFFFFFF)
		x.Fault("size-oversize")
	case 9:
		put(0x7FFFFFFF)
		x.Fault("size-oversize")
	case 10:
		// random bytes with an invalid type
		for i := 7; i < len(b); i++ {
			b[i] = byte(splitmix(uint64(i)*uint64(variant+1)) >> 3)
		}
		b[4] = 250
		x.Fault("garbage-random")
	case 11:
		// size larger than the frame by a little: the parser must not read the next reply as payload silently
		b[4] = 1
		x.Fault("garbage-type")
	}
	return b
}
