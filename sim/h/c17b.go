package h

// C17, stratum "session": several requests in a row through the same few
// fids. Every fid is modelled as the path it designates (and, once open, an
// open file of the twin): each request is the POSIX operation on that path in
// the twin tree, and the trees are compared after every step. Before a step
// renames or removes something, the other fids that designate it (or
// something below it) are clunked, so that what a request through a fid
// "corresponds to" is never in doubt.

import (
	"bytes"
	"fmt"
	"os"
	"path/filepath"
	"strings"
	"syscall"

	"github.com/rminnich/go9p/vsim/rt"
)

type c17Fid struct {
	no    uint32
	rel   string
	open  bool
	omode uint8
	twin  *os.File
}

func c17Session(x *Ctx) {
	c := x.C
	ms := uint32(c.cfg("msize"))
	u, A, B, r, ok := c17Setup(x)
	if !ok {
		return
	}
	defer u.Cleanup()
	finished := false
	sc := u.Raw(int(c.cfg("seg")))
	p := sc.Peer
	rt.Go(rt.SiteSpawn, func() {
		rt.SetName("raw-client")
		if !rawAttach(p, ms, c.cfg("dotu") != 0, "") {
			x.Violate("t0-mount", "attach failed")
			return
		}
		dotu := p.Dotu
		tag := uint16(10)
		fidno := uint32(10)
		call := func(m *Msg) *Recvd {
			tag++
			m.Tag = tag
			rr := p.Call(m)
			if rr == nil || rr.M == nil {
				x.Violate("t0-stalled", "%s got no reply", m)
			}
			return rr
		}
		var live []*c17Fid
		drop := func(f *c17Fid) {
			call(&Msg{Type: Tclunk, Fid: f.no})
			if f.twin != nil {
				f.twin.Close()
			}
			for i, g := range live {
				if g == f {
					live = append(live[:i], live[i+1:]...)
					break
				}
			}
		}
		// dropOthers clunks every other fid that designates rel or something below it
		dropOthers := func(me *c17Fid, rel string) {
			for _, g := range append([]*c17Fid{}, live...) {
				if g != me && (g.rel == rel || strings.HasPrefix(g.rel, rel+"/")) {
					drop(g)
				}
			}
		}
		compare := func(what string) bool {
			if d := diffSnap(snapshotTree(A, false), snapshotTree(B, false)); d != "" {
				x.Violate("t1-tree-diff", "after %s the exported tree differs from the twin on which the corresponding POSIX operation was applied: %s", what, d)
				return false
			}
			return true
		}
		history := func(f *c17Fid) string {
			return fmt.Sprintf("fid %d (%q, open=%v mode %d)", f.no, f.rel, f.open, f.omode)
		}
		nops := 2 * int(c.cfg("nops"))
		for k := 0; k < nops; k++ {
			_, _, all := listTree(B)
			before := snapshotTree(A, false)
			// keep 1..4 fids alive
			if len(live) == 0 || (len(live) < 4 && r.Pct(25)) {
				var cands []string
				for _, rel := range all {
					if fi, err := os.Lstat(filepath.Join(B, rel)); err == nil && (fi.IsDir() || fi.Mode().IsRegular()) {
						if _, err := filepath.EvalSymlinks(filepath.Join(B, filepath.Dir(rel))); err == nil {
							cands = append(cands, rel)
						}
					}
				}
				rel := ""
				if len(cands) > 0 && r.Pct(90) {
					rel = cands[r.Intn(len(cands))]
				}
				if strings.Contains(rel, "/") {
					// only through real directories: a path through a symbolic link names the same object twice
					if rp, err := filepath.EvalSymlinks(filepath.Join(B, filepath.Dir(rel))); err != nil || rp != filepath.Join(B, filepath.Dir(rel)) {
						rel = ""
					}
				}
				names := splitRel(rel)
				if len(names) > 16 {
					continue
				}
				fidno++
				rr := call(&Msg{Type: Twalk, Fid: 0, Newfid: fidno, Wname: names})
				if rr == nil || rr.M == nil {
					return
				}
				if rr.M.Type != Rwalk || len(rr.M.Wqid) != len(names) {
					x.Violate("t3-spurious-error", "walk to the existing path %q answered %s", rel, rr.M)
					return
				}
				live = append(live, &c17Fid{no: fidno, rel: rel})
				continue
			}
			f := live[r.Intn(len(live))]
			pa, pb := filepath.Join(A, f.rel), filepath.Join(B, f.rel)
			fi, lerr := os.Lstat(pb)
			if lerr != nil {
				drop(f)
				continue
			}
			isDir := fi.IsDir()
			switch op := r.Intn(12); {
			case op == 0: // stat
				what := "Tstat through " + history(f)
				rr := call(&Msg{Type: Tstat, Fid: f.no})
				if rr == nil || rr.M == nil {
					return
				}
				if rr.M.Type != Rstat {
					x.Violate("t3-spurious-error", "%s answered %s", what, rr.M)
					break
				}
				st := rr.M.Stat
				afi, _ := os.Lstat(pa)
				if f.rel != "" && st.Name != filepath.Base(f.rel) {
					x.Violate("t5-fid-after-rename", "%s names %q", what, st.Name)
				}
				if afi != nil && !isDir && st.Length != uint64(fi.Size()) {
					x.Violate("t6-stat", "%s reports length %d, the twin's file has %d bytes (exported file: %d)", what, st.Length, fi.Size(), afi.Size())
				}
				if st.Mode&0o777 != uint32(fi.Mode().Perm()) {
					x.Violate("t6-stat", "%s reports permission bits %o, the twin's object has %o", what, st.Mode&0o777, fi.Mode().Perm())
				}
				x.Probe("session-stat")
			case op == 1 && !f.open: // open
				mode := uint8(r.Pick(0, 1, 2, 3, 1|16, 2|16))
				if isDir {
					mode = 0
				}
				what := fmt.Sprintf("Topen(mode %d) through %s", mode, history(f))
				tf, eb := os.OpenFile(pb, omodeFlags(mode), 0)
				rr := call(&Msg{Type: Topen, Fid: f.no, Mode: mode})
				if rr == nil || rr.M == nil {
					return
				}
				c17Outcome(x, rr.M, eb, what, before, A, B, "", dotu)
				if rr.M.Type == Ropen && eb == nil {
					f.open, f.omode, f.twin = true, mode, tf
				} else if tf != nil {
					tf.Close()
				}
				compare(what)
				x.Probe("session-open")
			case (op == 2 || op == 3) && f.open && !isDir && (f.omode&3 == 1 || f.omode&3 == 2): // write
				data := pattern(r.Pick(1, 10, 500, 3000), uint64(k), 3, 3)
				off := uint64(r.Pick(0, 1, 100, int(fi.Size()), int(fi.Size())+50))
				what := fmt.Sprintf("Twrite(off %d, %d bytes) through %s", off, len(data), history(f))
				rr := call(&Msg{Type: Twrite, Fid: f.no, Offset: off, Count: uint32(len(data)), Data: data})
				if rr == nil || rr.M == nil {
					return
				}
				if rr.M.Type != Rwrite || int(rr.M.Count) != len(data) {
					x.Violate("t3-write", "%s answered %s", what, rr.M)
				} else {
					f.twin.WriteAt(data, int64(off))
				}
				compare(what)
				x.Probe("session-write")
			case (op == 4 || op == 5) && f.open && !isDir && f.omode&3 != 1: // read
				off := uint64(r.Pick(0, 1, 100, int(fi.Size()), int(fi.Size())/2))
				cnt := r.Pick(1, 50, 1000, int(ms)-24)
				what := fmt.Sprintf("Tread(off %d, count %d) through %s", off, cnt, history(f))
				rr := call(&Msg{Type: Tread, Fid: f.no, Offset: off, Count: uint32(cnt)})
				if rr == nil || rr.M == nil {
					return
				}
				buf := make([]byte, cnt)
				n, _ := f.twin.ReadAt(buf, int64(off))
				if rr.M.Type != Rread {
					x.Violate("t3-spurious-error", "%s answered %s", what, rr.M)
				} else if !bytes.Equal(rr.M.Data, buf[:n]) {
					x.Violate("t7-read", "%s returned %d bytes, the twin's open file gives %d (first difference at %d)", what, len(rr.M.Data), n, firstDiff(rr.M.Data, buf[:n]))
				}
				x.Probe("session-read")
			case op == 6 && !isDir: // truncate
				l := uint64(r.Pick(0, 1, int(fi.Size()), int(fi.Size())+1000, 7))
				what := fmt.Sprintf("Twstat(length=%d) through %s", l, history(f))
				rr := call(&Msg{Type: Twstat, Fid: f.no, Stat: nullStat(func(s *Stat) { s.Length = l })})
				if rr == nil || rr.M == nil {
					return
				}
				c17Outcome(x, rr.M, os.Truncate(pb, int64(l)), what, before, A, B, "", dotu)
				compare(what)
				x.Probe("session-truncate")
			case op == 7: // chmod
				m := uint32(r.Pick(0o600, 0o644, 0o755, 0o700))
				keepDir := uint32(0)
				if isDir {
					keepDir = 0x80000000
				}
				what := fmt.Sprintf("Twstat(mode=%o) through %s", m, history(f))
				rr := call(&Msg{Type: Twstat, Fid: f.no, Stat: nullStat(func(s *Stat) { s.Mode = keepDir | m })})
				if rr == nil || rr.M == nil {
					return
				}
				c17Outcome(x, rr.M, os.Chmod(pb, os.FileMode(m)), what, before, A, B, "", dotu)
				compare(what)
				x.Probe("session-chmod")
			case op == 8 && f.rel != "": // rename, then the fid designates the renamed object
				nn := fmt.Sprintf("ren%d", k)
				if r.Pct(25) {
					if sib, _ := os.ReadDir(filepath.Dir(pb)); len(sib) > 0 {
						nn = sib[r.Intn(len(sib))].Name()
					}
				}
				newRel := filepath.Join(filepath.Dir(f.rel), nn)
				what := fmt.Sprintf("Twstat(name=%q) through %s", nn, history(f))
				dropOthers(f, f.rel)
				dropOthers(f, newRel)
				rr := call(&Msg{Type: Twstat, Fid: f.no, Stat: nullStat(func(s *Stat) { s.Name = nn })})
				if rr == nil || rr.M == nil {
					return
				}
				eb := syscall.Rename(pb, filepath.Join(B, newRel))
				c17Outcome(x, rr.M, eb, what, before, A, B, "", dotu)
				if rr.M.Type == Rwstat && eb == nil {
					f.rel = newRel
				}
				compare(what)
				x.Probe("session-rename")
			case op == 9 && f.rel != "": // remove
				what := "Tremove through " + history(f)
				dropOthers(f, f.rel)
				rr := call(&Msg{Type: Tremove, Fid: f.no})
				if rr == nil || rr.M == nil {
					return
				}
				c17Outcome(x, rr.M, os.Remove(pb), what, before, A, B, "", dotu)
				if f.twin != nil {
					f.twin.Close()
				}
				for i, g := range live {
					if g == f {
						live = append(live[:i], live[i+1:]...)
						break
					}
				}
				compare(what)
				x.Probe("session-remove")
			case op == 10 && isDir && !f.open: // create through the directory fid: the fid moves to the new file, open
				name := fmt.Sprintf("made%d", k)
				if r.Pct(20) {
					if sib, _ := os.ReadDir(pb); len(sib) > 0 {
						name = sib[r.Intn(len(sib))].Name()
					}
				}
				if dotu && r.Pct(30) {
					// first a create that is refused for a reason of its own (a hard link to a fid that does not
					// exist, a device): nothing changes, and the fid is still the directory's
					perm, ext := uint32(0x01000000|0o644), "4000000"
					if r.Bool() {
						perm, ext = 0x00800000|0o644, "c 1 3"
					}
					if rr := call(&Msg{Type: Tcreate, Fid: f.no, Name: fmt.Sprintf("refused%d", k), Perm: perm, Mode: 0, Ext: ext}); rr == nil || rr.M == nil {
						return
					} else if rr.M.Type != Rerror {
						break // (a device node was made: not this step's business)
					}
					if !compare("a refused Tcreate (hard link to an unknown fid / device) through " + history(f)) {
						break
					}
					x.Probe("session-refused-create-then-create")
				}
				mode := uint8(r.Pick(1, 2))
				what := fmt.Sprintf("Tcreate(%q, mode %d) through %s", name, mode, history(f))
				newRel := filepath.Join(f.rel, name)
				tf, eb := os.OpenFile(filepath.Join(B, newRel), omodeFlags(mode)|os.O_CREATE|os.O_EXCL, 0o644)
				rr := call(&Msg{Type: Tcreate, Fid: f.no, Name: name, Perm: 0o644, Mode: mode})
				if rr == nil || rr.M == nil {
					return
				}
				made := ""
				if eb == nil {
					made = newRel
				}
				c17Outcome(x, rr.M, eb, what, before, A, B, made, dotu)
				if rr.M.Type == Rcreate && eb == nil {
					f.rel, f.open, f.omode, f.twin = newRel, true, mode, tf
				} else if tf != nil {
					tf.Close()
				}
				compare(what)
				x.Probe("session-create")
			case op == 11:
				drop(f)
			}
			if len(x.Res.Viol) > 0 {
				break
			}
		}
		for _, f := range append([]*c17Fid{}, live...) {
			drop(f)
		}
		finished = true
	})
	if !x.Run() {
		return
	}
	u.CountFaults()
	if !finished && len(x.Res.Viol) == 0 {
		x.Violate("t0-stalled", "the session did not finish")
	}
}
