package h

import (
	"fmt"
	"sort"
	"strings"

	"github.com/rminnich/go9p/vsim/rt"
)

// Op is one generated workload step; its meaning belongs to the property.
type Op struct {
	K   string   `json:"k"`
	A   []int64  `json:"a,omitempty"`
	S   []string `json:"s,omitempty"`
	Sub []Op     `json:"sub,omitempty"`
}

func (o Op) a(i int) int64 {
	if i < len(o.A) {
		return o.A[i]
	}
	return 0
}

func (o Op) s(i int) string {
	if i < len(o.S) {
		return o.S[i]
	}
	return ""
}

func (o Op) String() string {
	var b strings.Builder
	b.WriteString(o.K)
	if len(o.A) > 0 {
		fmt.Fprintf(&b, "%v", o.A)
	}
	if len(o.S) > 0 {
		fmt.Fprintf(&b, "%q", o.S)
	}
	if len(o.Sub) > 0 {
		b.WriteString("{")
		for i, s := range o.Sub {
			if i > 0 {
				b.WriteString("; ")
			}
			b.WriteString(s.String())
		}
		b.WriteString("}")
	}
	return b.String()
}

// Case is one simulated run: configuration + explicit workload (+ optional
// choice tape). It is a pure function of (Property, Seed) when generated, and
// the complete content of a replay file when reported.
type Case struct {
	Version    int              `json:"version"`
	Property   string           `json:"property"`
	Seed       uint64           `json:"seed"`
	Stratum    string           `json:"stratum,omitempty"`
	Cfg        map[string]int64 `json:"config"`
	Ops        []Op             `json:"workload"`
	Tape       []int32          `json:"tape,omitempty"`
	Strict     bool             `json:"strict,omitempty"`
	Race       bool             `json:"race,omitempty"`
	Rule       string           `json:"rule,omitempty"`
	Summary    string           `json:"summary,omitempty"`
	ExpectHash string           `json:"expected_event_hash,omitempty"`
	Schedule   []string         `json:"schedule_readable,omitempty"`
}

func (c *Case) cfg(k string) int64 { return c.Cfg[k] }

func (c *Case) Brief() string {
	keys := make([]string, 0, len(c.Cfg))
	for k := range c.Cfg {
		keys = append(keys, k)
	}
	sort.Strings(keys)
	var b strings.Builder
	fmt.Fprintf(&b, "%s seed=%d %s cfg{", c.Property, c.Seed, c.Stratum)
	for i, k := range keys {
		if i > 0 {
			b.WriteString(" ")
		}
		fmt.Fprintf(&b, "%s=%d", k, c.Cfg[k])
	}
	b.WriteString("} ops[")
	for i, o := range c.Ops {
		if i > 0 {
			b.WriteString("; ")
		}
		if i >= 12 {
			fmt.Fprintf(&b, "... %d more", len(c.Ops)-i)
			break
		}
		s := o.String()
		if len(s) > 160 {
			s = s[:160] + "..."
		}
		b.WriteString(s)
	}
	b.WriteString("]")
	return b.String()
}

type Violation struct {
	Rule   string `json:"rule"`
	Detail string `json:"detail"`
}

// Result is what a child process reports for one run.
type Result struct {
	Run        int            `json:"run"`
	Seed       uint64         `json:"seed"`
	Stratum    string         `json:"stratum,omitempty"`
	Viol       []Violation    `json:"viol,omitempty"`
	Trouble    string         `json:"trouble,omitempty"`
	Steps      int            `json:"steps"`
	Multi      int            `json:"multi"`
	Hash       string         `json:"hash"`
	SchedHash  string         `json:"sched"`
	Policy     int            `json:"policy"`
	Faults     map[string]int `json:"faults,omitempty"`
	Probes     map[string]int `json:"probes,omitempty"`
	Nontrivial bool           `json:"nontrivial"`
	Sample     string         `json:"sample,omitempty"`
	Case       *Case          `json:"case,omitempty"`
	Tape       []int32        `json:"tape,omitempty"`
	Schedule   []string       `json:"schedule,omitempty"`
	Porcupine  string         `json:"porcupine,omitempty"`
}

// Ctx is the per-run context handed to a property's executor.
type Ctx struct {
	S    *rt.Sim
	C    *Case
	Res  *Result
	Race bool
	// RulePrefix marks every violation of a stratum whose history shape is a
	// recorded known finding (so that it can be matched narrowly).
	RulePrefix string
	faults     []counter
	probes     []counter
}

func (x *Ctx) Violate(rule, format string, a ...any) {
	d := fmt.Sprintf(format, a...)
	rule = x.RulePrefix + rule
	for _, v := range x.Res.Viol {
		if v.Rule == rule {
			return // one report per rule per run
		}
	}
	if len(d) > 600 {
		d = d[:600] + "..."
	}
	x.Res.Viol = append(x.Res.Viol, Violation{rule, d})
}

// Counters are slices, not maps: they are bumped from many simulated goroutines
// and the runtime's map helpers would report those accesses to the race
// detector on behalf of the (uninstrumented) harness.
type counter struct {
	name string
	n    int
}

func bump(cs *[]counter, name string, n int) {
	for i := range *cs {
		if (*cs)[i].name == name {
			(*cs)[i].n += n
			return
		}
	}
	*cs = append(*cs, counter{name, n})
}

func (x *Ctx) Fault(kind string) { bump(&x.faults, kind, 1) }
func (x *Ctx) FaultN(kind string, n int) {
	if n > 0 {
		bump(&x.faults, kind, n)
	}
}
func (x *Ctx) Probe(name string) { bump(&x.probes, name, 1) }
func (x *Ctx) ProbeN(name string, n int) {
	if n > 0 {
		bump(&x.probes, name, n)
	}
}

// flushCounters copies the counters into the result (root goroutine, at the end).
func (x *Ctx) flushCounters() {
	for _, c := range x.faults {
		x.Res.Faults[c.name] += c.n
	}
	for _, c := range x.probes {
		x.Res.Probes[c.name] += c.n
	}
	x.faults, x.probes = nil, nil
}
func (x *Ctx) Trouble(format string, a ...any) {
	if x.Res.Trouble == "" {
		x.Res.Trouble = fmt.Sprintf(format, a...)
	}
}

// Run runs the simulation to quiescence. false: step budget exhausted or a
// goroutine panicked (both recorded by the caller via Finish).
func (x *Ctx) Run() bool { return x.S.Run() }

// Rand is the generator PRNG (configuration and workload), derived from the seed.
type Rand struct{ s uint64 }

func NewRand(seed uint64) *Rand {
	r := &Rand{s: seed ^ 0x9E3779B97F4A7C15}
	if r.s == 0 {
		r.s = 1
	}
	r.next()
	r.next()
	return r
}

func (r *Rand) next() uint64 {
	r.s ^= r.s << 13
	r.s ^= r.s >> 7
	r.s ^= r.s << 17
	return r.s
}

func (r *Rand) Intn(n int) int {
	if n <= 1 {
		return 0
	}
	return int((r.next() >> 11) % uint64(n))
}

func (r *Rand) Range(lo, hi int) int { return lo + r.Intn(hi-lo+1) }
func (r *Rand) Bool() bool           { return r.Intn(2) == 1 }
func (r *Rand) Pct(p int) bool       { return r.Intn(100) < p }
func (r *Rand) Pick(xs ...int) int   { return xs[r.Intn(len(xs))] }
func (r *Rand) U64() uint64          { return r.next() }

func splitmix(x uint64) uint64 {
	x += 0x9E3779B97F4A7C15
	z := x
	z = (z ^ (z >> 30)) * 0xBF58476D1CE4E5B9
	z = (z ^ (z >> 27)) * 0x94D049BB133111EB
	return z ^ (z >> 31)
}

// RunSeed derives the seed of run i of a property from the base seed.
func RunSeed(base uint64, prop string, i int) uint64 {
	h := splitmix(base)
	for _, c := range []byte(prop) {
		h = splitmix(h ^ uint64(c))
	}
	return splitmix(h ^ uint64(i)*0x100000001B3)
}

// Property is the registration record of one property's check.
type Property struct {
	ID   string
	Gen  func(seed uint64, run int, tier string) *Case
	Exec func(x *Ctx)
}

var Props = map[string]*Property{}

func register(p *Property) { Props[p.ID] = p }

// common configuration swarm helpers

func genCommon(r *Rand, cfg map[string]int64) {
	cfg["policy"] = int64(r.Intn(rt.NPolicies))
	cfg["seg"] = int64(r.Intn(rt.NSeg))
	cfg["debug"] = int64(r.Pick(0, 0, 12)) // DbgLogFcalls|DbgLogPackets
	// (one-byte segments under msize-sized payloads take a few hundred thousand steps: seen once in a thorough sweep
	// of C10 as 'step budget of 200000 exhausted', exit 2)
	cfg["maxsteps"] = 1500000
}

// pattern fills n bytes that are a function of the arguments, so that a
// receiver can tell whose data it got.
func pattern(n int, a, b, c uint64) []byte {
	out := make([]byte, n)
	x := splitmix(a*1000003 ^ b*10007 ^ c)
	for i := range out {
		if i%8 == 0 {
			x = splitmix(x)
		}
		out[i] = byte(x >> (8 * uint(i%8)))
	}
	return out
}
