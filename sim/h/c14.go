package h

// C14 — file data read and written through client and Ufs is exact
// (DESIGN.md §4 C14). Real client library <-> real Ufs on a scratch tree over
// the simulated transport; byte-slice model per file and os.ReadFile as oracles.

import (
	"bytes"
	"fmt"
	"io"
	"os"
	"path/filepath"

	"github.com/rminnich/go9p"
	"github.com/rminnich/go9p/vsim/rt"
)

func init() { register(&Property{ID: "C14", Gen: c14Gen, Exec: c14Exec}) }

func c14Gen(seed uint64, run int, tier string) *Case {
	r := NewRand(seed)
	c := &Case{Cfg: map[string]int64{}}
	genCommon(r, c.Cfg)
	c.Cfg["maxsteps"] = 3000000
	io := r.Pick(128, 200, 1024, 4096, 65536-24)
	if io > 300 && (c.Cfg["seg"] == rt.SegOne || c.Cfg["seg"] == rt.SegTiny || c.Cfg["seg"] == rt.SegMixed) {
		c.Cfg["seg"] = rt.SegRandom // 64 KiB messages one byte per read cost a step per byte; C13 covers that
	}
	c.Cfg["iounit"] = int64(io) // MountConn's msize argument: the payload size
	c.Cfg["dotu"] = int64(r.Intn(2))
	c.Cfg["sdotu"] = int64(r.Intn(2))
	c.Cfg["smsize"] = int64(r.Pick(io+24, io+24, 65536, 300))
	c.Cfg["maxpend"] = int64(r.Pick(0, 2, 64))
	eff := io
	if s := int(c.Cfg["smsize"]) - 24; s < eff {
		eff = s
	}
	lens := []int{0, 1, eff - 1, eff, eff + 1, 2*eff - 1, 2*eff + 1, 3*eff + 7}
	ncallers := r.Range(1, 4)
	if tier == "thorough" {
		ncallers = r.Range(1, 6)
	}
	c.Stratum = fmt.Sprintf("iounit=%d", eff)
	if run%5 == 4 {
		// the file system fails now and then: a call may fail, it may never return wrong data or lose written data silently
		c.Cfg["osrate"] = int64(r.Pick(10, 30, 80))
		c.Stratum += " os-errors"
	}
	for ci := 0; ci < ncallers; ci++ {
		nfiles := r.Range(1, 3)
		var ops []Op
		for f := 0; f < nfiles; f++ {
			flen := lens[r.Intn(len(lens))]
			if r.Pct(30) {
				flen = r.Intn(5*eff + 1)
			}
			if flen > 300000 {
				flen = 300000 - r.Intn(50)
			}
			ops = append(ops, Op{K: "file", A: []int64{int64(f), int64(flen)}})
			for k := r.Range(2, 8); k > 0; k-- {
				off := r.Pick(0, 0, flen, flen+1, flen+eff, r.Intn(flen+2), r.Intn(flen+2), (flen/2/maxInt(eff, 1))*eff)
				if off > 0 && r.Pct(30) {
					off--
				}
				cnt := r.Pick(0, 1, eff-1, eff, eff+1, 2*eff, 3*eff+1, r.Intn(3*eff+1))
				kind := []string{"cread", "cwrite", "fread", "fwrite", "readat", "writeat", "readn", "written", "seqread", "tagread"}[r.Intn(10)]
				if (kind == "cread" || kind == "readat" || kind == "readn") && r.Pct(12) {
					// far beyond the end of any file here, beyond 32 bits: no data
					off = r.Pick(1<<32, 1<<32+1, 1<<32+flen/2, 1<<40)
				}
				if kind == "seqread" && cnt < flen/40+1 {
					cnt = flen/40 + 1 // at most ~40 round trips per sequential pass
				}
				if r.Pct(12) {
					// a further open of the same file (now and then by way of a symbolic link): what one handle
					// writes, the others must read
					ops = append(ops, Op{K: "reopen", A: []int64{int64(f), int64(r.Pick(0, 1, 2, 2)), int64(r.Pick(0, 2, 2, 1|16, 2|16, 3))}}) // OREAD, ORDWR, or with OTRUNC: the file is emptied by the open; OEXEC: read, with the permission check of exec
				}
				if r.Pct(6) {
					ops = append(ops, Op{K: "closeh", A: []int64{int64(f), int64(r.Intn(8))}}) // one of the further handles is closed; the others go on
				}
				if r.Pct(6) {
					ops = append(ops, Op{K: "badopen", A: []int64{int64(f), int64(r.Intn(8)), int64(r.Pick(0, 1, 2, 3, 16))}}) // a second Topen on an open fid is refused, and changes nothing
				}
				ops = append(ops, Op{K: kind, A: []int64{int64(f), int64(off), int64(cnt), int64(r.Intn(4))}})
			}
		}
		c.Ops = append(c.Ops, Op{K: "caller", Sub: ops})
	}
	return c
}

type c14File struct {
	name       string
	model      []byte
	hs         []*c14Handle // every open handle of the file
	*c14Handle              // the one the current operation uses
}

type c14Handle struct {
	fid  *go9p.Fid
	file *go9p.File
	foff int // model of the File's own offset
}

func c14Exec(x *Ctx) {
	c := x.C
	iounit := uint32(c.cfg("iounit"))
	u := NewUfsSys(x, uint32(c.cfg("smsize")), c.cfg("sdotu") != 0, int(c.cfg("maxpend")), int(c.cfg("debug")))
	if u == nil {
		return
	}
	defer u.Cleanup()
	go9p.DefaultDebuglevel = 0
	go9p.DefaultLogger = nil
	if rate := int(c.cfg("osrate")); rate > 0 {
		x.S.OSRate, x.S.OSMax = rate, 5
	}
	var gs []*rt.G
	mountErr := ""
	mainG := rt.Go(rt.SiteSpawn, func() {
		rt.SetName("main")
		clnt, _, err := u.Mount(iounit, c.cfg("dotu") != 0, int(c.cfg("seg")), "")
		if err != nil {
			mountErr = err.Error()
			return
		}
		for ci, op := range c.Ops {
			if op.K != "caller" {
				continue
			}
			ci, op := ci, op
			gs = append(gs, rt.Go(rt.SiteSpawn, func() {
				rt.SetName(fmt.Sprintf("caller%d", ci))
				c14Caller(x, u, clnt, ci, op.Sub)
			}))
		}
	})
	gs = append(gs, mainG)
	if !x.Run() {
		return
	}
	u.CountFaults()
	x.FaultN("os-error", len(x.S.OSLog))
	if mountErr != "" && len(x.S.OSLog) == 0 {
		x.Violate("e0-mount", "mounting the Ufs tree failed: %s", mountErr)
	}
	for _, g := range gs {
		if !g.Done() {
			x.Violate("e0-hang", "caller %s did not finish: %s", g.Name, x.S.Describe(g))
		}
	}
}

func c14Caller(x *Ctx, u *UfsSys, clnt *go9p.Clnt, ci int, ops []Op) {
	files := map[int]*c14File{}
	osMark := 0
	viol := func(rule, format string, a ...any) {
		if len(x.S.OSLog) > osMark && rule != "e3-disk" {
			return // an injected OS error fired while this call was running: it may fail (it may not corrupt: e3-disk stays armed)
		}
		x.Violate(rule, "caller %d: "+format, append([]any{ci}, a...)...)
	}
	for _, op := range ops {
		if op.K == "file" {
			osMark = len(x.S.OSLog)
			name := fmt.Sprintf("c%d-f%d", ci, op.a(0))
			content := fileContent(name, int(op.a(1)))
			if err := os.WriteFile(filepath.Join(u.Root, name), content, 0o644); err != nil {
				x.Trouble("scratch file: %v", err)
				return
			}
			f, err := clnt.FOpen(name, go9p.ORDWR)
			if err != nil {
				viol("e1-open", "FOpen(%q) of an existing %d-byte file failed: %v", name, len(content), err)
				return
			}
			h := &c14Handle{fid: f.Fid, file: f}
			files[int(op.a(0))] = &c14File{name: name, model: append([]byte(nil), content...), hs: []*c14Handle{h}, c14Handle: h}
			os.Symlink(name, filepath.Join(u.Root, name+".lnk"))
			if k := (int(op.a(0)) + int(x.C.Seed%97)) % 5; k >= 3 {
				// the permission bits change under the open file (to read-only, to nothing): what is open stays open,
				// and the server's own user (root here) opens it again all the same
				os.Chmod(filepath.Join(u.Root, name), []os.FileMode{0o444, 0}[k-3])
				x.Probe("permission-bits-removed-under-the-open-file")
			}
			continue
		}
		f := files[int(op.a(0))]
		if f == nil {
			continue
		}
		if op.K == "badopen" {
			h := f.hs[int(op.a(1))%len(f.hs)]
			was := h.fid.Mode
			if err := clnt.Open(h.fid, uint8(op.a(2))); err == nil {
				x.Probe("second-open-of-an-open-fid-accepted")
			} else {
				x.Probe("second-open-of-an-open-fid-refused")
			}
			h.fid.Mode = was // (the client library records the mode it asked for; the handle's real mode is the first one)
			continue
		}
		if op.K == "closeh" {
			if len(f.hs) > 1 {
				i := 1 + int(op.a(1))%(len(f.hs)-1)
				f.hs[i].file.Close()
				f.hs = append(f.hs[:i:i], f.hs[i+1:]...)
				x.Probe("one-of-several-handles-closed")
			}
			continue
		}
		if op.K == "reopen" && op.a(1) == 2 {
			// two more handles made the other way round: walk to the file, clone the fid with a walk of no names,
			// then open both (the clone for reading and writing, the original as the case says)
			osMark = len(x.S.OSLog)
			w, err := clnt.FWalk(f.name)
			if err != nil {
				viol("e1-open", "FWalk(%q) failed: %v", f.name, err)
				continue
			}
			nf := clnt.FidAlloc()
			if _, err := clnt.Walk(w, nf, nil); err != nil {
				viol("e1-open", "cloning the fid of %q failed: %v", f.name, err)
				continue
			}
			mode := uint8(op.a(2)) &^ 16
			first, second := w, nf
			if mode == 0 {
				first, second = nf, w // the read-only open comes last
			}
			for _, g := range []*go9p.Fid{first, second} {
				m := uint8(2)
				if g == w {
					m = mode
				}
				if err := clnt.Open(g, m); err != nil {
					viol("e1-open", "opening a fid of %q made by walk (mode %d) failed: %v", f.name, m, err)
					continue
				}
				f.hs = append(f.hs, &c14Handle{fid: g, file: &go9p.File{Fid: g}})
			}
			x.Probe("file-open-through-a-cloned-fid")
			continue
		}
		if op.K == "reopen" {
			osMark = len(x.S.OSLog)
			name := f.name
			if op.a(1) != 0 {
				name += ".lnk"
			}
			g, err := clnt.FOpen(name, uint8(op.a(2)))
			if err != nil {
				viol("e1-open", "a further FOpen(%q, mode %d) failed: %v", name, op.a(2), err)
				continue
			}
			f.hs = append(f.hs, &c14Handle{fid: g.Fid, file: g})
			x.Probe("file-open-several-times")
			if op.a(2)&16 != 0 {
				f.model = f.model[:0]
				if b, err := os.ReadFile(filepath.Join(u.Root, f.name)); err != nil || len(b) != 0 {
					viol("e3-disk", "after FOpen(%q) with OTRUNC the underlying file has %d bytes", name, len(b))
				}
				x.Probe("open-with-otrunc")
			}
			continue
		}
		f.c14Handle = f.hs[0]
		if len(op.A) > 3 {
			f.c14Handle = f.hs[int(op.a(3))%len(f.hs)]
		}
		isWrite := op.K == "cwrite" || op.K == "fwrite" || op.K == "writeat" || op.K == "written"
		if ((f.fid.Mode&3 == go9p.OREAD || f.fid.Mode&3 == go9p.OEXEC) && isWrite) || (f.fid.Mode&3 == go9p.OWRITE && !isWrite) {
			f.c14Handle = f.hs[0] // the first handle is open for reading and writing
		}
		osMark = len(x.S.OSLog)
		off, cnt := int(op.a(1)), int(op.a(2))
		io32 := int(f.fid.Iounit)
		want := func(off, n int) []byte {
			if off >= len(f.model) {
				return nil
			}
			end := off + n
			if end > len(f.model) {
				end = len(f.model)
			}
			return f.model[off:end]
		}
		applyWrite := func(off int, data []byte) {
			if len(data) == 0 {
				return
			}
			for len(f.model) < off {
				f.model = append(f.model, 0)
			}
			if end := off + len(data); end > len(f.model) {
				f.model = append(f.model, make([]byte, end-len(f.model))...)
			}
			copy(f.model[off:], data)
		}
		checkDisk := func(what string) {
			b, err := os.ReadFile(filepath.Join(u.Root, f.name))
			if err != nil || !bytes.Equal(b, f.model) {
				viol("e3-disk", "after %s the underlying file %q has %d bytes and differs from the %d bytes written through the client (first difference at %d)", what, f.name, len(b), len(f.model), firstDiff(b, f.model))
			}
		}
		switch op.K {
		case "cread":
			data, err := clnt.Read(f.fid, uint64(off), uint32(cnt))
			n := cnt
			if n > io32 {
				n = io32
			}
			if err != nil {
				viol("e2-read", "Clnt.Read(%q, off=%d, count=%d) failed: %v", f.name, off, cnt, err)
			} else if w := want(off, n); len(data) > len(w) || !bytes.Equal(data, w[:len(data)]) || (len(data) == 0 && len(w) > 0) {
				// (a single Tread may return fewer bytes than asked for; what it returns must be the file's)
				viol("e2-read", "Clnt.Read(%q, off=%d, count=%d) returned %d bytes that are not the first bytes of the %d the file has at that offset (file length %d)", f.name, off, cnt, len(data), len(w), len(f.model))
			}
			if off >= len(f.model) {
				x.Probe("read-at-or-past-eof")
			}
			if off+n == len(f.model) && n > 0 {
				x.Probe("read-ending-exactly-at-eof")
			}
		case "tagread":
			// three consecutive chunks read through the pipelined Tag interface, all in flight together
			if cnt <= 0 || cnt > io32 || off > 1<<31 {
				cnt = minInt(maxInt(cnt, 1), io32)
				off = minInt(off, 1<<20)
			}
			ch := make(chan *go9p.Req, 3)
			tag := clnt.TagAlloc(ch)
			pending := 0
			for k := 0; k < 3; k++ {
				if err := tag.Read(f.fid, uint64(off+k*cnt), uint32(cnt)); err != nil {
					viol("e2-read", "Tag.Read(%q, off=%d, count=%d) could not be issued: %v", f.name, off+k*cnt, cnt, err)
				} else {
					pending++
				}
			}
			for ; pending > 0; pending-- {
				r := <-ch
				if r.Err != nil || r.Rc == nil {
					viol("e2-read", "pipelined Tag.Read(%q, off=%d) failed: %v", f.name, r.Tc.Offset, r.Err)
				} else if w := want(int(r.Tc.Offset), cnt); !bytes.Equal(r.Rc.Data, w) {
					viol("e2-read", "pipelined Tag.Read(%q, off=%d, count=%d) returned %d bytes, want the %d bytes of the file at that offset", f.name, r.Tc.Offset, cnt, len(r.Rc.Data), len(w))
				}
				tag.ReqFree(r)
			}
			clnt.TagFree(tag)
			x.Probe("pipelined-tag-reads")
		case "cwrite":
			data := pattern(cnt, uint64(ci), uint64(off), uint64(len(f.model)))
			n, err := clnt.Write(f.fid, data, uint64(off))
			wn := cnt
			if wn > io32 {
				wn = io32
			}
			if err != nil || n != wn {
				viol("e2-write", "Clnt.Write(%q, %d bytes, off=%d) returned (%d, %v), want %d", f.name, cnt, off, n, err, wn)
			}
			if err == nil {
				applyWrite(off, data[:n])
				checkDisk(fmt.Sprintf("Clnt.Write(off=%d,n=%d)", off, n))
			}
			if off > len(f.model) {
				x.Probe("write-past-eof")
			}
		case "readat", "fread":
			buf := make([]byte, cnt)
			var n int
			var err error
			at := off
			if op.K == "fread" {
				at = f.foff
				n, err = f.file.Read(buf)
			} else {
				n, err = f.file.ReadAt(buf, int64(off))
			}
			w := want(at, minInt(cnt, io32))
			switch {
			case err == io.EOF:
				if len(w) != 0 {
					viol("e2-read", "File.%s(%q, off=%d, len=%d) reported EOF although %d bytes were available", op.K, f.name, at, cnt, len(w))
				}
			case err != nil:
				viol("e2-read", "File.%s(%q, off=%d, len=%d) failed: %v", op.K, f.name, at, cnt, err)
			case n > len(w) || !bytes.Equal(buf[:n], w[:n]) || (n == 0 && len(w) > 0 && cnt > 0):
				viol("e2-read", "File.%s(%q, off=%d, len=%d) returned %d bytes that are not the first bytes of the %d the file has there", op.K, f.name, at, cnt, n, len(w))
			}
			if op.K == "fread" && err == nil {
				f.foff += n
			}
		case "seqread":
			// read the whole file sequentially with File.Read in chunks of cnt (>= 1)
			if cnt < len(f.model)/40+1 {
				cnt = len(f.model)/40 + 1 // at most ~40 round trips per sequential pass
			}
			g, err := clnt.FOpen(f.name, go9p.OREAD)
			if err != nil {
				viol("e1-open", "FOpen(%q) failed: %v", f.name, err)
				break
			}
			var all []byte
			buf := make([]byte, cnt)
			for iter := 0; iter < 1000000; iter++ {
				n, err := g.Read(buf)
				all = append(all, buf[:n]...)
				if err == io.EOF || (err == nil && n == 0) {
					break
				}
				if err != nil {
					viol("e2-read", "sequential File.Read of %q failed at %d: %v", f.name, len(all), err)
					break
				}
			}
			if !bytes.Equal(all, f.model) {
				viol("e2-seqread", "reading %q sequentially in chunks of %d gave %d bytes, the file has %d (first difference at %d)", f.name, cnt, len(all), len(f.model), firstDiff(all, f.model))
			}
			g.Close()
			if len(f.model) >= 3*io32 && cnt > io32 {
				x.Probe("read-spanning-3+-messages")
			}
		case "writeat", "fwrite":
			data := pattern(cnt, uint64(ci)+77, uint64(off), uint64(len(f.model)))
			var n int
			var err error
			at := off
			if op.K == "fwrite" {
				at = f.foff
				n, err = f.file.Write(data)
			} else {
				n, err = f.file.WriteAt(data, int64(off))
			}
			wn := minInt(cnt, io32)
			if err != nil || n != wn {
				viol("e2-write", "File.%s(%q, %d bytes, off=%d) returned (%d, %v), want %d", op.K, f.name, cnt, at, n, err, wn)
			}
			if err == nil {
				applyWrite(at, data[:n])
				if op.K == "fwrite" {
					f.foff += n
				}
				checkDisk(fmt.Sprintf("File.%s(off=%d,n=%d)", op.K, at, n))
			}
		case "readn":
			buf := make([]byte, cnt)
			n, err := f.file.Readn(buf, uint64(off))
			w := want(off, cnt)
			if err != nil && err != io.EOF {
				viol("e2-readn", "Readn(%q, off=%d, len=%d) failed: %v", f.name, off, cnt, err)
			} else if n != len(w) || !bytes.Equal(buf[:n], w) {
				viol("e2-readn", "Readn(%q, off=%d, len=%d) with file length %d returned (%d, %v), want %d bytes (up to end of file)", f.name, off, cnt, len(f.model), n, err, len(w))
			}
			if cnt > io32 {
				x.Probe("readn-spanning-messages")
			}
		case "written":
			data := pattern(cnt, uint64(ci)+99, uint64(off), uint64(len(f.model)))
			n, err := f.file.Written(data, uint64(off))
			if err != nil || n != cnt {
				viol("e2-written", "Written(%q, %d bytes, off=%d) returned (%d, %v)", f.name, cnt, off, n, err)
			}
			if n >= 0 && n <= cnt {
				applyWrite(off, data[:n]) // what it reports as written must be in the file, also when it stops on an error
				checkDisk(fmt.Sprintf("Written(off=%d,n=%d,err=%v)", off, n, err))
			}
			if cnt > io32 {
				x.Probe("written-spanning-messages")
			}
		}
	}
	for _, f := range files {
		for _, h := range f.hs {
			h.file.Close()
		}
	}
}

func minInt(a, b int) int {
	if a < b {
		return a
	}
	return b
}

func firstDiff(a, b []byte) int {
	n := minInt(len(a), len(b))
	for i := 0; i < n; i++ {
		if a[i] != b[i] {
			return i
		}
	}
	return n
}
