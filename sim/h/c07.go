package h

// C07 — Tflush is always answered and truly cancels (DESIGN.md §4 C07).

import (
	"fmt"

	"github.com/rminnich/go9p/vsim/rt"
)

func init() { register(&Property{ID: "C07", Gen: c07Gen, Exec: c07Exec}) }

func c07Gen(seed uint64, run int, tier string) *Case {
	r := NewRand(seed)
	c := &Case{Cfg: map[string]int64{}}
	genSrvCfg(r, c, tier)
	c.Cfg["nconn"] = int64(r.Pick(1, 1, 1, 2))
	c.Cfg["autorel"] = int64(r.Intn(2)) // parked implementation calls may wake up in the middle of activity
	flushop := r.Bool()
	c.Cfg["flushop"] = b2i(flushop)
	c.Cfg["inplacewalk"] = 1
	c.Stratum = "no-flushop"
	if flushop {
		c.Stratum = "flushop"
		if r.Pct(12) {
			c.Cfg["flushalways"] = 1
			c.Stratum = "flushop-cancels-unconditionally"
		}
	}
	maxEp := 3
	if tier == "thorough" {
		maxEp = 6
	}
	maxData := effMsize(c) - IOHDRSZ
	nconn := int(c.Cfg["nconn"])
	for ci := 0; ci < nconn; ci++ {
		neps := r.Range(1, maxEp)
		for e := 0; e < neps; e++ {
			a := 2 * e
			// unrelated traffic
			for k := r.Intn(3); k > 0; k-- {
				c.Ops = append(c.Ops, reqOp(ci, r.Intn(nWTypes), 20+r.Intn(6), r.Pick(PNow, PNow, PHold), r.Pct(15), r.Pick(0, 5, 60), r.Pct(40), 0))
			}
			if r.Pct(20) {
				// a Tflush naming a tag that was never used, written while whatever is parked is parked: answered at once
				c.Ops = append(c.Ops, flushOp(ci, 90+e, 200+e, fpNoWait, r.Pct(50)))
			}
			// stage "queued": the target waits behind a same-tag request
			queued := r.Pct(20)
			if queued {
				c.Ops = append(c.Ops, reqOp(ci, r.Intn(nWTypes), a, r.Pick(PHold, PAsync, PNow), false, r.Pick(0, 7), r.Pct(30), 0))
			}
			mode := r.Pick(PNow, PNow, PHold, PHold, PAfter, PAsync)
			onflush := 0
			if flushop {
				onflush = r.Intn(3)
				if onflush != 0 && r.Pct(25) {
					mode = PNever
				}
			}
			ti := r.Intn(nWTypes)
			cnt := r.Pick(0, 1, 13, 100, maxData)
			if ti == wtWalk {
				cnt = 1 + r.Intn(3)
			}
			nfl := r.Pick(1, 1, 1, 2, 3)
			first := r.Intn(nPlacements)
			if mode == PNever && first == fpAfterDone {
				first = fpWhenHeld // nothing but the flush will ever complete this target
			}
			tgt := reqOp(ci, ti, a, mode, r.Pct(15), cnt, first != fpSameSeg && r.Pct(50), onflush)
			if queued {
				tgt.A = append(tgt.A, 1) // shared tag: do not wait for the predecessor
			}
			c.Ops = append(c.Ops, tgt)
			for k := 0; k < nfl; k++ {
				pl := first
				if k > 0 {
					pl = r.Intn(nPlacements)
					if pl == fpSameSeg || (mode == PNever && pl == fpAfterDone) {
						pl = fpNoWait
					}
				}
				c.Ops = append(c.Ops, flushOp(ci, 40+3*e+k, a, pl, r.Pct(50)))
			}
			if r.Pct(20) && mode != PNever {
				// flush of a flush (not with a target that only a flush can complete: cancelling that flush would legitimately leave it outstanding for ever)
				c.Ops = append(c.Ops, flushOp(ci, 70+e, 40+3*e, r.Pick(fpNoWait, fpSameSeg, fpAfterDone), r.Pct(50)))
			}
			// reuse of the old tag the moment it is free
			if !queued {
				c.Ops = append(c.Ops, reqOp(ci, r.Intn(nWTypes), a, PNow, r.Pct(10), r.Pick(0, 3, 50), true, 0))
			}
		}
	}
	return c
}

func b2i(b bool) int64 {
	if b {
		return 1
	}
	return 0
}

func c07Exec(x *Ctx) {
	if x.C.cfg("flushalways") != 0 {
		// recorded known finding: a FlushOp that calls req.Flush() for a request the framework has
		// not handed to the implementation yet races with that request's worker
		x.RulePrefix = "flushunseen:"
	}
	w := NewSrvWork(x, x.C.cfg("flushop") != 0)
	w.FirstQuiescence = func() {
		// "immediately if the old tag is not outstanding": nothing that is held may delay it
		for _, q := range w.reqs {
			if !q.IsFlush || q.Sent == nil || q.Sent.Reply != nil || q.Cancelled {
				continue
			}
			t := q.Target
			if t == nil || t.Sent == nil {
				x.Violate("f1-immediate", "%v names a tag that was never used, yet has no Rflush at quiescence", q)
				continue
			}
			if t.Sent.Reply != nil && t.Sent.Reply.Step < q.Sent.Step && !t.Shared && !hasSharedSuccessor(w, t) {
				x.Violate("f1-immediate", "%v: the old tag's request had been answered before the Tflush was written, yet there is no Rflush at quiescence", q)
			}
		}
	}
	w.Start()
	if !w.RunPhases() {
		return
	}
	// f4: probes for state left behind by cancelled requests
	type probe struct {
		q    *wReq
		s    *Sent
		want string
	}
	var probes []*probe
	var pg []*rt.G
	for ci := range w.byConn {
		ci := ci
		if !w.setupOK[ci] {
			continue
		}
		peer := w.sys.Conns[ci].Peer
		var mine []*probe
		tag := uint16(2000)
		for _, q := range w.byConn[ci] {
			if q.IsFlush || !q.Cancelled {
				continue
			}
			switch q.Type {
			case Twalk:
				if q.Newfid == q.Fid {
					// a cancelled walk in place leaves the fid what and where it was
					mine = append(mine, &probe{q: q, s: &Sent{M: &Msg{Type: Tstat, Tag: tag, Fid: q.Fid}}, want: "valid"})
				} else if q.N%4 > 0 {
					mine = append(mine, &probe{q: q, s: &Sent{M: &Msg{Type: Tstat, Tag: tag, Fid: q.Newfid}}, want: "unknown"})
				}
			case Tclunk, Tremove:
				mine = append(mine, &probe{q: q, s: &Sent{M: &Msg{Type: Tstat, Tag: tag, Fid: q.Fid}}, want: "valid"})
			case Topen:
				mine = append(mine, &probe{q: q, s: &Sent{M: &Msg{Type: Topen, Tag: tag, Fid: q.Fid, Mode: 0}}, want: "not-open"})
			}
			tag++
		}
		if len(mine) == 0 {
			continue
		}
		probes = append(probes, mine...)
		pg = append(pg, rt.Go(rt.SiteSpawn, func() {
			rt.SetName(fmt.Sprintf("prober%d", ci))
			for _, p := range mine {
				if peer.EOF {
					return
				}
				r := peer.Call(p.s.M)
				p.s.Reply = r
			}
		}))
	}
	if len(probes) > 0 {
		if !w.RunPhases() {
			return
		}
	}
	for _, p := range probes {
		r := p.s.Reply
		if r == nil || r.M == nil {
			x.Violate("f4-probe", "probe %s after cancelled %v got no reply", p.s.M, p.q)
			continue
		}
		isErr := r.M.Type == Rerror
		switch p.want {
		case "unknown":
			if !isErr || r.M.Ename != "unknown fid" {
				x.Violate("f4-state-left", "cancelled %v left its newfid %d behind: probe answered %s", p.q, p.q.Newfid, r.M)
			}
		case "valid":
			if isErr && r.M.Ename == "unknown fid" {
				x.Violate("f4-state-left", "cancelled %v nevertheless invalidated fid %d: probe answered %s", p.q, p.q.Fid, r.M)
			}
		case "not-open":
			if isErr && r.M.Ename == "fid already opened" {
				x.Violate("f4-state-left", "cancelled %v left fid %d open: probe answered %s", p.q, p.q.Fid, r.M)
			}
		}
		x.Probe("f4-probe-" + p.want)
	}

	// f1, f2, f3
	for ci, sc := range w.sys.Conns {
		if !w.setupOK[ci] {
			continue
		}
		_ = sc
		for _, q := range w.byConn[ci] {
			if q.Sent == nil {
				continue
			}
			if q.IsFlush {
				rf := q.Sent.Reply
				if rf == nil {
					if !q.Cancelled {
						x.Violate("f1-no-rflush", "conn %d: %v was never answered", ci, q)
					}
					continue
				}
				if rf.M != nil && rf.M.Type != Rflush {
					x.Violate("f1-not-rflush", "conn %d: %v answered with %s", ci, q, rf.M)
				}
				t := q.Target
				if t != nil && t.Sent != nil && t.Sent.Reply != nil && t.Sent.Reply.Idx > rf.Idx && t.Sent.Step <= q.Sent.Step {
					x.Violate("f2-reply-after-rflush", "conn %d: the reply to %v is frame %d of the reply stream, after the Rflush (frame %d) of %v", ci, t, t.Sent.Reply.Idx, rf.Idx, q)
				}
				continue
			}
			if q.Cancelled {
				x.Probe("cancelled")
				rf := q.CancelledBy
				for _, inv := range w.invsOf(q) {
					if inv.Step > rf.WStep {
						x.Violate("f3-run-after-rflush", "conn %d: %v was handed to the implementation at step %d, after its Rflush had been written at step %d (no reply preceded the Rflush)", ci, q, inv.Step, rf.WStep)
					} else {
						x.Probe("cancelled-after-implementation-started")
					}
				}
				if len(w.invsOf(q)) == 0 {
					x.Probe("cancelled-before-implementation")
				}
			}
		}
	}
	w.CheckReplies(func(q *wReq) bool { return q.Cancelled || (q.IsFlush) })
	w.countProbes()
}

func hasSharedSuccessor(w *SrvWork, t *wReq) bool {
	for _, q := range w.byConn[t.Conn] {
		if q.prev == t && q.Shared {
			return true
		}
	}
	return false
}
