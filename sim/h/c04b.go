package h

// C04, stratum "concurrent-batch": requests that bind, use and invalidate the
// same few fid numbers are outstanding at the same time. The outcomes of a
// batch, the validity of every fid number afterwards (probed with Tstat) and
// what the implementation was shown must be explained by SOME order of the
// batch's requests applied to the reference fid-table model (a brute-force
// linearizability check: batches have 2..4 requests, so at most 24 orders),
// and every fid the implementation was shown is reported destroyed exactly
// once by the time everything has settled.
//
// Every scripted implementation call succeeds here: with failing or partial
// walks the framework reserves the new fid number while the walk is in
// progress, which no sequential order explains and which the property does
// not forbid.

import (
	"fmt"
	"strings"

	"github.com/rminnich/go9p"
	"github.com/rminnich/go9p/vsim/rt"
)

type bReq struct {
	op   Op
	msg  *Msg
	sent *Sent
	hold bool
}

func (m *fidModel) clone() *fidModel {
	n := &fidModel{auth: m.auth, dotu: m.dotu, msize: m.msize}
	for _, c := range m.conns {
		nc := &mConn{fids: map[uint32]*mFid{}}
		for k, f := range c.fids {
			cp := *f
			nc.fids[k] = &cp
		}
		n.conns = append(n.conns, nc)
	}
	return n
}

func c04BatchGen(r *Rand, c *Case, tier string) {
	c.Stratum = "concurrent-batch"
	c.Cfg["batch"] = 1
	c.Cfg["rounds"] = int64(r.Range(2, 8))
	if tier == "thorough" {
		c.Cfg["rounds"] = int64(r.Range(2, 30))
	}
	c.Cfg["holdpct"] = int64(r.Pick(0, 30, 60, 90))
	c.Cfg["sameseg"] = int64(r.Intn(2))
}

func permutations(n int) [][]int {
	var out [][]int
	var rec func(cur []int, used int)
	rec = func(cur []int, used int) {
		if len(cur) == n {
			out = append(out, append([]int{}, cur...))
			return
		}
		for i := 0; i < n; i++ {
			if used&(1<<uint(i)) == 0 {
				rec(append(cur, i), used|1<<uint(i))
			}
		}
	}
	rec(nil, 0)
	return out
}

func c04BatchExec(x *Ctx) {
	c := x.C
	ms := uint32(1024)
	r := NewRand(c.Seed ^ 0xBA7C4)
	fs := NewScriptFS(x)
	holdTag := make([]bool, 1<<16)
	fs.PlanFor = func(inv *Inv) *Plan {
		p := &Plan{NWqid: -1, NData: -1, QType: qDir}
		if holdTag[inv.Tag] {
			p.Mode = PHold
		}
		return p
	}
	sys := NewSrvSys(x, fs.OpsValue(false, false), fs, ms, true, int(c.cfg("maxpend")), int(c.cfg("debug")))
	sc := sys.AddConn(0, int(c.cfg("seg")))
	peer := sc.Peer
	model := &fidModel{msize: ms, conns: []*mConn{{fids: map[uint32]*mFid{}}}}
	finished := false
	rounds := int(c.cfg("rounds"))
	holdpct := int(c.cfg("holdpct"))
	fidNos := []uint32{1, 2, 3, 4}
	describe := func(b []*bReq) string {
		var s []string
		for _, q := range b {
			rep := "no reply"
			if q.sent != nil && q.sent.Reply != nil && q.sent.Reply.M != nil {
				rep = q.sent.Reply.M.String()
			}
			s = append(s, fmt.Sprintf("%s -> %s", q.msg, rep))
		}
		return strings.Join(s, " || ")
	}
	rt.Go(rt.SiteSpawn, func() {
		rt.SetName("batches")
		ver := "9P2000"
		if c.cfg("dotu") != 0 {
			ver = "9P2000.u"
		}
		if rr := peer.Call(&Msg{Type: Tversion, Tag: NOTAG, Msize: ms, Version: ver}); rr == nil || rr.M == nil || rr.M.Type != Rversion {
			x.Violate("setup", "Tversion failed")
			return
		}
		model.dotu = peer.Dotu
		tag := uint16(0)
		seq := func(op Op) bool {
			tag++
			v := model.judge(op)
			rr := peer.Call(c45Msg(op, tag, peer.Dotu, ms))
			if rr == nil || rr.M == nil {
				x.Violate("a0-no-reply", "prologue request got no reply")
				return false
			}
			if (v.refuse != "" || v.anyErr) != (rr.M.Type == Rerror) {
				x.Violate("a1-not-refused", "prologue request %s answered %s, the model says refuse=%q", c45Msg(op, tag, peer.Dotu, ms), rr.M, v.refuse)
				return false
			}
			return true
		}
		// fid 0: the stable source of walks, never clunked
		if !seq(tOp(0, Tattach, 0, NOFID, 0, 0, false, -1, qDir, 0, false)) {
			return
		}
		for _, f := range fidNos[:r.Range(0, 3)] {
			if !seq(tOp(0, Twalk, 0, f, 0, 0, false, -1, qDir, 0, false)) {
				return
			}
		}
		for round := 0; round < rounds; round++ {
			n := r.Pick(2, 2, 3, 3, 4)
			var batch []*bReq
			hot := fidNos[r.Intn(len(fidNos))] // most requests of a batch meet on one number
			pick := func() uint32 {
				if r.Pct(70) {
					return hot
				}
				return fidNos[r.Intn(len(fidNos))]
			}
			for i := 0; i < n; i++ {
				var op Op
				switch r.Intn(8) {
				case 0:
					op = tOp(0, Tattach, pick(), NOFID, int64(r.Intn(2)), 0, false, -1, qDir, 0, false)
				case 1, 2:
					op = tOp(0, Twalk, 0, pick(), int64(r.Intn(2)), 0, false, -1, qDir, 0, false)
				case 3:
					src := pick()
					op = tOp(0, Twalk, src, pick(), int64(r.Intn(2)), 0, false, -1, qDir, 0, false)
				case 4, 5:
					op = tOp(0, Tclunk, pick(), 0, 0, 0, false, -1, 0, 0, false)
				case 6:
					op = tOp(0, Tremove, pick(), 0, 0, 0, false, -1, 0, 0, false)
				default:
					op = tOp(0, Tstat, pick(), 0, 0, 0, false, -1, 0, 0, false)
				}
				tag++
				q := &bReq{op: op, msg: c45Msg(op, tag, peer.Dotu, ms), hold: r.Pct(holdpct)}
				holdTag[tag] = q.hold
				batch = append(batch, q)
			}
			// a walk that starts from a number which is only being bound by another member of the batch would copy
			// a fid that is not complete yet (the client may not use a fid before its Rattach / Rwalk): such
			// walks start from fid 0 instead. Binding, probing and invalidating such a number stays in.
			for bi, q := range batch {
				if uint8(q.op.a(fType)) != Twalk {
					continue
				}
				src := uint32(q.op.a(fFid))
				for bj, o := range batch {
					ot := uint8(o.op.a(fType))
					if bj != bi && ((ot == Tattach && uint32(o.op.a(fFid)) == src) || (ot == Twalk && uint32(o.op.a(fFid2)) == src)) {
						q.op.A[fFid] = 0
						q.msg = c45Msg(q.op, q.msg.Tag, peer.Dotu, ms)
						break
					}
				}
			}
			logStart := len(fs.Log)
			if c.cfg("sameseg") != 0 {
				var ms []*Msg
				for _, q := range batch {
					ms = append(ms, q.msg)
				}
				for i, s := range peer.Write(ms...) {
					batch[i].sent = s
				}
			} else {
				for _, q := range batch {
					q.sent = peer.Write(q.msg)[0]
				}
			}
			rt.YieldUntil(rt.SiteActor, func() bool {
				if peer.EOF {
					return true
				}
				for _, q := range batch {
					if q.sent.Reply == nil {
						return false
					}
				}
				return true
			})
			for _, q := range batch {
				if q.sent.Reply == nil || q.sent.Reply.M == nil {
					x.Violate("a0-no-reply", "batch %s: a request got no reply", describe(batch))
					return
				}
			}
			x.Probe("batch-answered")
			dumpf("round %d: %s", round, describe(batch))
			// what the implementation saw for each request of the batch
			forwarded := map[uint16]int{}
			for _, in := range fs.Log[logStart:] {
				if in.Req != nil {
					forwarded[in.Tag]++
				}
			}
			// validity of every number afterwards
			valid := map[uint32]bool{}
			for k, f := range append([]uint32{0}, fidNos...) {
				before := len(fs.Log)
				rr := peer.Call(&Msg{Type: Tstat, Tag: uint16(60000 + k), Fid: f})
				if rr == nil || rr.M == nil {
					x.Violate("a0-no-reply", "probe Tstat got no reply")
					return
				}
				nstat := 0
				for _, in := range fs.Log[before:] {
					if in.Op == "stat" {
						nstat++
					}
				}
				switch {
				case rr.M.Type == Rstat && nstat == 1:
					valid[f] = true
				case rr.M.Type == Rerror && strings.Contains(rr.M.Ename, "unknown fid") && nstat == 0:
				default:
					x.Violate("a7-probe", "after batch %s: probe Tstat of fid %d answered %s with %d implementation calls", describe(batch), f, rr.M, nstat)
					return
				}
			}
			// some order of the batch must explain all of it
			var explained *fidModel
			for _, perm := range permutations(len(batch)) {
				// a fid invalidated by a member of the batch may still be named by the other members: they were
				// sent while it was valid ("invalid after a successful Tclunk" speaks of requests sent after the
				// reply); each such request may be taken either way (mask bit set: it still found the fid)
				// A request naming a number whose binding request (Tattach, Twalk newfid) is another member of the
				// batch was sent before that binding was answered: the framework may refuse it, with any error,
				// as long as it does not forward it (choice 2).
				nchoice := 1
				for range perm {
					nchoice *= 3
				}
				for mask := 0; mask < nchoice && explained == nil; mask++ {
					m := model.clone()
					ok := true
					ghost := map[uint32]*mFid{}
					mk := mask
					for _, bi := range perm {
						choice := mk % 3
						mk /= 3
						q := batch[bi]
						typ, f := uint8(q.op.a(fType)), uint32(q.op.a(fFid))
						asGhost := false
						if choice == 2 {
							inFlight := false
							for bj, o := range batch {
								ot := uint8(o.op.a(fType))
								if bj != bi && ((ot == Tattach && uint32(o.op.a(fFid)) == f) || (ot == Twalk && uint32(o.op.a(fFid2)) == f && uint32(o.op.a(fFid)) != f)) {
									inFlight = true
								}
							}
							if typ == Tattach || !inFlight || q.sent.Reply.M.Type != Rerror || forwarded[q.msg.Tag] != 0 {
								ok = false
								break
							}
							continue // refused without effect
						}
						if choice == 1 {
							if typ == Tattach || m.get(0, f) != nil || ghost[f] == nil {
								ok = false // nothing to take the other way here: covered by the mask without this choice
								break
							}
							cp := *ghost[f]
							m.conns[0].fids[f] = &cp
							asGhost = true
						}
						pre := m.get(0, f)
						v := m.judge(q.op)
						if asGhost {
							delete(m.conns[0].fids, f)
						} else if pre != nil && m.get(0, f) == nil {
							ghost[f] = pre
						}
						rep := q.sent.Reply.M
						refused := v.refuse != "" || v.anyErr
						if refused != (rep.Type == Rerror) || (v.refuse != "" && !strings.Contains(rep.Ename, v.refuse)) {
							ok = false
							break
						}
						want := 1
						if refused {
							want = 0
						}
						if forwarded[q.msg.Tag] != want {
							ok = false
							break
						}
					}
					if !ok {
						continue
					}
					for _, f := range append([]uint32{0}, fidNos...) {
						if (m.get(0, f) != nil) != valid[f] {
							ok = false
							break
						}
					}
					if ok {
						explained = m
						if mask != 0 {
							x.Probe("batch-explained-by-a-request-overlapping-a-bind-or-invalidation")
						}
						if len(perm) > 1 && perm[0] != 0 {
							x.Probe("batch-explained-only-out-of-issue-order")
						}
					}
				}
				if explained != nil {
					break
				}
			}
			if explained == nil {
				var was, now []string
				for _, f := range append([]uint32{0}, fidNos...) {
					if model.get(0, f) != nil {
						was = append(was, fmt.Sprint(f))
					}
					if valid[f] {
						now = append(now, fmt.Sprint(f))
					}
				}
				x.Violate("a8-not-linearizable", "valid fids before: [%s]; concurrent requests and their replies: %s; implementation calls per tag: %v; valid fids afterwards: [%s] — no order of these requests applied to the fid-table model gives these replies, calls and final table", strings.Join(was, " "), describe(batch), forwarded, strings.Join(now, " "))
				return
			}
			model = explained
		}
		// let everything settle, then: every fid the implementation was shown and that is no longer valid was
		// reported destroyed exactly once, the valid ones not at all
		for y := 0; y < 3; y++ {
			rt.Yield(rt.SiteActor)
		}
		finished = true
	})
	for {
		if !x.Run() {
			return
		}
		held := fs.HeldInvs()
		if len(held) == 0 {
			break
		}
		held[x.S.Choose(len(held))].Released = true
	}
	if !finished {
		if len(x.Res.Viol) == 0 {
			x.Violate("a0-no-reply", "the batches did not finish: a request got no reply")
		}
		return
	}
	for _, in := range fs.Log {
		dumpf("inv step=%d %s tag=%d fid=%d newfid=%d fidP=%p newfidP=%p", in.Step, in.Op, in.Tag, in.Fid, in.Newfid, in.FidP, in.NewfidP)
	}
	shown := map[*go9p.SrvFid]uint32{}
	destroyed := map[*go9p.SrvFid]int{}
	var order []*go9p.SrvFid
	for _, in := range fs.Log {
		if in.Op == "fiddestroy" {
			destroyed[in.FidP]++
			continue
		}
		for _, p := range []*go9p.SrvFid{in.FidP, in.NewfidP} {
			if p != nil && in.Req != nil {
				if _, ok := shown[p]; !ok {
					order = append(order, p)
				}
				shown[p] = 0
			}
		}
	}
	live := 0
	for _, p := range order {
		switch destroyed[p] {
		case 0:
			live++
		case 1:
		default:
			x.Violate("a5-destroy-count", "a fid object the implementation was shown was reported destroyed %d times", destroyed[p])
		}
	}
	nvalid := len(model.conns[0].fids)
	if live != nvalid {
		x.Violate("a5-destroy-count", "%d fid numbers are valid at the end, but %d fid objects shown to the implementation have not been reported destroyed", nvalid, live)
	}
	x.FaultN("seg-split", sc.Srv.In.Splits+sc.Clnt.In.Splits)
}
