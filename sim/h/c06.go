package h

// C06 — no client behaviour can crash the server (DESIGN.md §4 C06).
// A hostile raw peer (structured adversarial requests, byte mutations of a
// valid session, raw random bytes) attacks a server running the scripted
// implementation or the real Ufs, while a bystander connection keeps working
// and a fresh connection is opened afterwards. A panic anywhere in the
// simulated process is the violation (the real process would have died).

import (
	"fmt"
	"os"
	"path/filepath"
	"runtime"
	"strings"

	"github.com/rminnich/go9p"
	"github.com/rminnich/go9p/vsim/rt"
)

func init() { register(&Property{ID: "C06", Gen: c06Gen, Exec: c06Exec}) }

func c06Gen(seed uint64, run int, tier string) *Case {
	r := NewRand(seed)
	c := &Case{Cfg: map[string]int64{}}
	genCommon(r, c.Cfg)
	if c.Cfg["seg"] == rt.SegOne {
		c.Cfg["seg"] = rt.SegTiny
	}
	c.Cfg["maxsteps"] = 1500000
	c.Cfg["ufs"] = int64(run % 2)
	c.Cfg["gen"] = int64(run / 2 % 3) // 0 grammar, 1 byte mutation, 2 raw bytes
	c.Cfg["msize"] = int64(r.Pick(24, 25, 64, 256, 1024, 8192, 70000))
	c.Cfg["smsize"] = int64(r.Pick(256, 8192, 70000, 0))
	c.Cfg["dotu"] = int64(r.Intn(2))
	c.Cfg["sdotu"] = int64(r.Intn(2))
	c.Cfg["maxpend"] = int64(r.Pick(0, 2, 64))
	c.Cfg["auth"] = int64(r.Intn(2))
	c.Cfg["nframes"] = int64(r.Range(5, 30))
	c.Cfg["wait"] = int64(r.Pick(0, 1, 1))
	c.Stratum = []string{"script", "ufs"}[run%2] + "/" + []string{"grammar", "mutation", "raw-bytes"}[run/2%3]
	if run%40 == 13 || run%40 == 33 {
		// two directed sessions on Ufs: very many users; a directory that changes under a fid that lists it
		c.Cfg["ufs"], c.Cfg["gen"], c.Cfg["directed"] = 1, 3, int64(1+run%40/20)
		c.Cfg["msize"], c.Cfg["smsize"], c.Cfg["dotu"], c.Cfg["sdotu"], c.Cfg["wait"] = 8192, 8192, 1, 1, 1
		c.Cfg["maxsteps"] = 4000000
		c.Stratum = "ufs/directed-" + []string{"", "many-users", "directory-changes-under-a-fid"}[c.Cfg["directed"]]
		return c
	}
	if run%40 == 37 {
		// a directed session on Ufs with a file system that fails one call in ten to one in four: bursts of requests on one fresh
		// fid (an open among stats and a read): what one request fails to learn about the file is nothing to the others
		c.Cfg["ufs"], c.Cfg["gen"], c.Cfg["directed"], c.Cfg["osrate"] = 1, 3, 5, int64(r.Pick(100, 160, 250)) // per mille
		c.Cfg["msize"], c.Cfg["smsize"], c.Cfg["dotu"], c.Cfg["sdotu"], c.Cfg["wait"] = 8192, 8192, 1, 1, 1
		c.Cfg["maxsteps"] = 4000000
		c.Stratum = "ufs/directed-bursts-on-one-fid+os-errors"
		return c
	}
	if run%40 == 23 {
		// a directed session on Ufs: every request goes out with a Tflush of it in the same write, so that the flush
		// meets its target at every stage (not started, inside an os call, answering)
		c.Cfg["ufs"], c.Cfg["gen"], c.Cfg["directed"], c.Cfg["osrate"] = 1, 3, 4, 0
		c.Cfg["msize"], c.Cfg["smsize"], c.Cfg["dotu"], c.Cfg["sdotu"], c.Cfg["wait"] = 8192, 8192, 1, 1, 1
		c.Cfg["maxsteps"] = 4000000
		c.Stratum = "ufs/directed-flush-with-every-request"
		return c
	}
	if run%40 == 3 {
		// a directed session on the scripted implementation: three requests under one tag, the oldest parked in the
		// implementation, a Tflush of the tag, and the peer hangs up before the parked one comes back
		c.Cfg["ufs"], c.Cfg["gen"], c.Cfg["directed"], c.Cfg["osrate"] = 0, 3, 3, 0
		c.Cfg["msize"], c.Cfg["smsize"], c.Cfg["wait"] = 8192, 8192, 1
		c.Cfg["chain"] = int64(r.Pick(1, 2, 3))
		c.Cfg["flushfirst"] = int64(r.Intn(2))
		c.Stratum = "script/directed-tag-chain-cancelled-then-hangup"
		return c
	}
	if run%2 == 1 && run/6%2 == 1 {
		// the file system misbehaves too: os / syscall calls of Ufs fail at random
		c.Cfg["osrate"] = int64(r.Pick(20, 60, 200))
		c.Stratum += "+os-errors"
	}
	return c
}

var hostileNames = []string{"", ".", "..", "a/b", "/", "../..", "x", "sub", "file", "\x00", strings.Repeat("n", 255), strings.Repeat("N", 4000), strings.Repeat("Z", 65000)}
var hostileU32 = []uint32{0, 1, 2, 3, 7, 100, 0x7FFFFFFF, 0x80000000, NOFID - 1, NOFID}
var hostileU64 = []uint64{0, 1, 2, 23, 24, 100, 4095, 4096, 1 << 31, 1 << 32, 1<<63 - 1, 1 << 63, ^uint64(0)}

func hostileMsg(r *Rand, msize uint32) *Msg {
	u32 := func() uint32 {
		if r.Pct(15) {
			return uint32(r.U64())
		}
		return hostileU32[r.Intn(len(hostileU32))]
	}
	name := func() string {
		n := hostileNames[r.Intn(len(hostileNames))]
		if len(n) > int(msize) {
			n = n[:r.Intn(int(msize)+1)]
		}
		return n
	}
	counts := []uint32{0, 1, msize - 25, msize - 24, msize - 23, msize, 1 << 31, 0xFFFFFFFF - 23, 0xFFFFFFFF}
	types := []uint8{Tversion, Tauth, Tattach, Tflush, Twalk, Topen, Tcreate, Tread, Twrite, Tclunk, Tremove, Tstat, Twstat,
		Rversion, Rauth, Rattach, Rerror, Rflush, Rwalk, Ropen, Rcreate, Rread, Rwrite, Rclunk, Rremove, Rstat, Rwstat}
	m := &Msg{Type: types[r.Intn(len(types))], Tag: uint16(r.Pick(0, 1, 2, 3, 0xFFFF, r.Intn(65536)))}
	if r.Pct(60) {
		m.Type = types[r.Intn(13)] // mostly T-messages
	}
	m.Fid, m.Afid, m.Newfid = u32(), u32(), u32()
	if r.Pct(60) {
		m.Fid = uint32(r.Intn(4))
	}
	if r.Pct(40) {
		m.Newfid = uint32(r.Intn(4))
	}
	if r.Pct(50) {
		m.Afid = NOFID
	}
	m.Msize = uint32(r.Pick(0, 23, 24, 25, 64, int(msize), 1<<20, 0x7FFFFFFF))
	m.Version = []string{"9P2000", "9P2000.u", "", "9P2000.L", name()}[r.Intn(5)]
	m.Uname, m.Aname, m.Nuname = name(), name(), u32()
	if r.Pct(50) {
		m.Uname, m.Nuname = "u1", 1
	}
	m.Ename, m.Errno = name(), u32()
	m.Oldtag = uint16(r.Pick(0, 1, 2, 3, 0xFFFF, int(m.Tag)))
	nw := r.Pick(0, 0, 1, 2, 16, 17, 300)
	resolving := r.Pct(30) // every element exists: down and up again, however many there are
	for k := 0; k < nw; k++ {
		if resolving {
			m.Wname = append(m.Wname, []string{"sub", ".."}[k%2])
		} else {
			m.Wname = append(m.Wname, []string{"sub", "file", "..", ".", "", "a/b", "deep", "x"}[r.Intn(8)])
		}
		m.Wqid = append(m.Wqid, Qid{uint8(r.Intn(256)), u32(), hostileU64[r.Intn(len(hostileU64))]})
	}
	if m.Type == Twalk && resolving && nw > 2 && r.Pct(70) {
		m.Fid, m.Newfid = 0, uint32(r.Pick(0, 5, 6)) // from the root, where the long walk does resolve
	}
	m.Mode = uint8(r.Pick(0, 1, 2, 3, 16, 17, 64, 255))
	m.Perm = uint32(r.Pick(0o644, 0o755, 0x80000000|0o755, 0x02000000, 0x01000000, 0x00800000, 0x00200000, 0x00100000, 0xFFFFFFFF, 0))
	m.Name, m.Ext = name(), name()
	m.Qid = Qid{uint8(r.Intn(256)), u32(), hostileU64[r.Intn(len(hostileU64))]}
	m.Iounit = u32()
	m.Offset = hostileU64[r.Intn(len(hostileU64))]
	m.Count = counts[r.Intn(len(counts))]
	if m.Type == Twrite || m.Type == Rread {
		n := int(m.Count)
		if n > int(msize) {
			n = r.Intn(int(msize) + 1)
		}
		m.Data = make([]byte, n)
		if r.Pct(70) {
			m.Count = uint32(n)
		}
	}
	m.Stat = Stat{Type: uint16(r.Intn(65536)), Dev: u32(), Qid: m.Qid, Mode: m.Perm, Atime: u32(), Mtime: u32(), Length: m.Offset, Name: name(), Uid: name(), Gid: "g", Muid: "", Ext: name(), Nuid: u32(), Ngid: u32(), Nmuid: u32()}
	if r.Pct(50) {
		m.Stat = nullStat(func(s *Stat) { s.Name = name(); s.Length = hostileU64[r.Intn(len(hostileU64))] })
	}
	if r.Pct(30) {
		// owners by name, as a plain 9P2000 client sends them: names the host knows and names it does not
		m.Stat.Uid = []string{"root", "daemon", "nobody", "no-such-user", ""}[r.Intn(5)]
		m.Stat.Gid = []string{"root", "daemon", "", "no-such-group"}[r.Intn(4)]
	}
	if r.Pct(10) {
		m.StatSize = 1 + r.Pick(0, 1, 2, 38, 39, 40, 41, 60, 0xFFFF) // the stat's own size[2] disagrees with what follows
	}
	return m
}

func mutateBytes(r *Rand, b []byte) []byte {
	b = append([]byte(nil), b...)
	for k := r.Range(1, 4); k > 0 && len(b) > 0; k-- {
		i := r.Intn(len(b))
		switch r.Intn(6) {
		case 0:
			b[i] ^= byte(1 << uint(r.Intn(8)))
		case 1:
			b[i] = byte(r.Intn(256))
		case 2:
			b = append(b[:i], append([]byte{byte(r.Intn(256))}, b[i:]...)...)
		case 3:
			b = append(b[:i], b[i+1:]...)
		case 4:
			b = b[:i]
		case 5:
			if len(b) >= 4 {
				v := uint32(r.Pick(0, 1, 6, 7, len(b)-1, len(b)+1, 1<<16, 0x7FFFFFFF, 0xFFFFFFFF))
				b[0], b[1], b[2], b[3] = byte(v), byte(v>>8), byte(v>>16), byte(v>>24)
			}
		}
	}
	return b
}

func c06Exec(x *Ctx) {
	c := x.C
	r := NewRand(c.Seed ^ 0x0606)
	useUfs := c.cfg("ufs") != 0
	smsize := uint32(c.cfg("smsize"))
	var newConn func() *SConn
	var fs *ScriptFS
	var u *UfsSys
	heldOnce := false
	var m0 runtime.MemStats
	runtime.ReadMemStats(&m0)
	if useUfs {
		u = NewUfsSys(x, smsize, c.cfg("sdotu") != 0, int(c.cfg("maxpend")), int(c.cfg("debug")))
		if u == nil {
			return
		}
		defer u.Cleanup()
		os.MkdirAll(filepath.Join(u.Root, "sub", "deep"), 0o755)
		os.WriteFile(filepath.Join(u.Root, "file"), pattern(3000, 1, 2, 3), 0o644)
		os.WriteFile(filepath.Join(u.Root, "sub", "file"), []byte("inside"), 0o644)
		os.Symlink("file", filepath.Join(u.Root, "link"))
		for i := 0; i < 12; i++ {
			os.WriteFile(filepath.Join(u.Root, "sub", fmt.Sprintf("e%02d-%s", i, strings.Repeat("x", i*9))), nil, 0o600)
		}
		newConn = func() *SConn { return u.Raw(int(c.cfg("seg"))) }
	} else {
		fs = NewScriptFS(x)
		fs.PlanFor = func(inv *Inv) *Plan {
			p := &Plan{NWqid: -1, NData: -1, QType: uint8(rt.Choose(2) * 0x80), Err: rt.Choose(5) == 0}
			if inv.Op == "attach" {
				p.QType, p.Err = 0x80, false
			}
			if inv.Op == "read" && inv.Req.Tc.Count > 4096 {
				p.NData = 4096
			}
			if inv.Op == "walk" && rt.Choose(3) == 0 && len(inv.Req.Tc.Wname) > 0 {
				p.NWqid = rt.Choose(len(inv.Req.Tc.Wname))
			}
			if c.cfg("directed") == 3 && inv.Tag == 77 && len(fs.HeldInvs()) == 0 && !heldOnce {
				p.Mode, p.Err, heldOnce = PHold, false, true
			}
			return p
		}
		sys := NewSrvSys(x, fs.OpsValue(c.cfg("auth") != 0, rt.Choose(2) == 0), fs, smsize, c.cfg("sdotu") != 0, int(c.cfg("maxpend")), int(c.cfg("debug")))
		newConn = func() *SConn { return sys.AddConn(0, int(c.cfg("seg"))) }
	}
	hostile := newConn()
	by := newConn()
	if rate := int(c.cfg("osrate")); rate > 0 {
		x.S.OSRate, x.S.OSMax = rate, 12
		if c.cfg("directed") == 5 {
			x.S.OSMax = 400
		}
	}
	msize := uint32(c.cfg("msize"))
	dotu := c.cfg("dotu") != 0
	hostileDone, byOK, byCalls := false, true, 0
	stop := false
	// bystander: a well-behaved client working throughout
	rt.Go(rt.SiteSpawn, func() {
		rt.SetName("bystander")
		p := by.Peer
		attached := rawAttach(p, 8192, true, "")
		for try := 0; !attached && x.S.OSRate > 0 && try < 8 && !p.EOF; try++ {
			// with injected file system errors the attach itself may fail: try again, as a client would
			r := p.Call(&Msg{Type: Tattach, Tag: uint16(50 + try), Fid: 0, Afid: NOFID, Uname: "root", Aname: "", Nuname: 0})
			attached = r != nil && r.M != nil && r.M.Type == Rattach
		}
		if !attached {
			x.Violate("z2-bystander", "the bystander connection could not attach while another connection misbehaves")
			byOK = false
			return
		}
		for i := 0; !stop && i < 200; i++ {
			rr := p.Call(&Msg{Type: Tstat, Tag: uint16(100 + i), Fid: 0})
			byCalls++
			if rr == nil || rr.M == nil || (rr.M.Type != Rstat && !(rr.M.Type == Rerror && (!useUfs || x.S.OSRate > 0))) {
				x.Violate("z2-bystander", "the bystander's Tstat %d was answered %v (connection dropped: %v) while another connection misbehaves", i, rr, p.EOF)
				byOK = false
				return
			}
			for y := 0; y < 3; y++ {
				rt.Yield(rt.SiteActor)
			}
		}
	})
	rt.Go(rt.SiteSpawn, func() {
		rt.SetName("hostile")
		defer func() { hostileDone = true }()
		p := hostile.Peer
		p.x = &Ctx{S: x.S, C: x.C, Res: &Result{Faults: map[string]int{}, Probes: map[string]int{}}} // what the server answers to garbage is not judged
		gen := int(c.cfg("gen"))
		wait := c.cfg("wait") != 0
		send := func(b []byte) {
			if p.EOF || hostile.Clnt.Closed() {
				return
			}
			before := len(p.Recv)
			p.WriteRaw(b)
			if wait {
				// give the server a chance to answer before the next frame (bounded: it may never answer garbage)
				for y := 0; y < 40 && len(p.Recv) == before && !p.EOF; y++ {
					rt.Yield(rt.SiteActor)
				}
			}
		}
		// a valid prefix so that later requests meet fids in real states
		if gen == 3 || (gen != 2 && r.Pct(85)) {
			ver := "9P2000"
			if dotu {
				ver = "9P2000.u"
			}
			if gen != 3 && r.Pct(35) {
				// a negotiation ladder first: msize down, up, down ... before the session proper
				for k := r.Range(1, 3); k > 0; k-- {
					before := len(p.Recv)
					send(Encode(&Msg{Type: Tversion, Tag: NOTAG, Msize: uint32(r.Pick(24, 25, 40, 64, 100, 256, 8192, 70000)), Version: ver}, false))
					for y := 0; y < 60 && len(p.Recv) == before && !p.EOF; y++ {
						rt.Yield(rt.SiteActor)
					}
				}
				x.Probe("negotiation-ladder")
			}
			nrecv := len(p.Recv)
			send(Encode(&Msg{Type: Tversion, Tag: NOTAG, Msize: msize, Version: ver}, false))
			for y := 0; y < 60 && len(p.Recv) == nrecv && !p.EOF; y++ {
				rt.Yield(rt.SiteActor)
			}
			if msize >= 64 {
				send(Encode(&Msg{Type: Tattach, Tag: 1, Fid: 0, Afid: NOFID, Uname: "u1", Aname: "", Nuname: 1}, p.Dotu))
				send(Encode(&Msg{Type: Twalk, Tag: 2, Fid: 0, Newfid: 1, Wname: []string{"sub"}}, p.Dotu))
				send(Encode(&Msg{Type: Twalk, Tag: 3, Fid: 0, Newfid: 2, Wname: []string{"file"}}, p.Dotu))
				send(Encode(&Msg{Type: Topen, Tag: 4, Fid: 1, Mode: 0}, p.Dotu))
				send(Encode(&Msg{Type: Topen, Tag: 5, Fid: 2, Mode: uint8(r.Pick(0, 1, 2))}, p.Dotu))
				if msize >= 256 && r.Pct(35) {
					// a walk of 16, 17 or 18 elements that all exist (down and up again)
					var names []string
					for k := r.Pick(16, 17, 17, 18); k > 0; k-- {
						names = append(names, []string{"sub", ".."}[len(names)%2])
					}
					send(Encode(&Msg{Type: Twalk, Tag: 7, Fid: 0, Newfid: 7, Wname: names}, p.Dotu))
					x.Probe("walk-of-16+-resolving-elements")
				}
				if r.Bool() {
					cnt := uint32(r.Pick(0, 50, 200, int(msize)-24))
					if m := p.Msize; m >= 24 && cnt > m-24 && r.Bool() {
						cnt = m - 24 // the largest count the negotiated msize allows
					}
					send(Encode(&Msg{Type: Tread, Tag: 6, Fid: 1, Offset: 0, Count: cnt}, p.Dotu))
				}
				if useUfs && x.S.OSRate > 0 && msize >= 256 {
					// with a file system that misbehaves the listing is built a few times over: every rebuild meets
					// failures of its own (an entry that cannot be looked at any more, a directory that cannot be read)
					for k := 0; k < 3; k++ {
						send(Encode(&Msg{Type: Tread, Tag: uint16(60 + k), Fid: 1, Offset: 0, Count: 200}, p.Dotu))
					}
					x.Probe("listing-rebuilt-under-os-errors")
					// and several requests at once on one fresh fid (an open among stats): what one of them learns
					// about the file, or fails to learn, is nothing to the others
					for k := 0; k < 4; k++ {
						f := uint32(40 + k)
						send(Encode(&Msg{Type: Twalk, Tag: uint16(70 + k), Fid: 0, Newfid: f, Wname: []string{"file"}}, p.Dotu))
						var burst []byte
						for j, t := range []uint8{Tstat, Topen, Tstat, Tstat, Tread} {
							burst = append(burst, Encode(&Msg{Type: t, Tag: uint16(80 + 8*k + j), Fid: f, Mode: 0, Offset: 0, Count: 50}, p.Dotu)...)
						}
						send(burst)
					}
					x.Probe("burst-on-one-fid-under-os-errors")
				}
			}
		}
		eff := p.Msize
		if eff > msize {
			eff = msize
		}
		n := int(c.cfg("nframes"))
		if gen == 3 {
			n = 0
			ask := func(m *Msg) *Recvd { // one request, wait for its reply (or the end of the connection)
				before := len(p.Recv)
				p.WriteRaw(Encode(m, p.Dotu))
				for y := 0; y < 400 && len(p.Recv) == before && !p.EOF; y++ {
					rt.Yield(rt.SiteActor)
				}
				if len(p.Recv) > before {
					return p.Recv[len(p.Recv)-1]
				}
				return nil
			}
			switch c.cfg("directed") {
			case 1:
				// more users than any table is likely to be sized for, then objects owned by yet another one
				for k := 0; k < 1100 && !p.EOF; k++ {
					ask(&Msg{Type: Tattach, Tag: uint16(100 + k), Fid: uint32(1000 + k), Afid: NOFID, Uname: "x", Aname: "", Nuname: uint32(70000 + k)})
				}
				os.Chown(filepath.Join(u.Root, "file"), 64242, 64243)
				os.Chown(filepath.Join(u.Root, "sub", "file"), 64244, 64245)
				ask(&Msg{Type: Tstat, Tag: 7, Fid: 2})
				ask(&Msg{Type: Tread, Tag: 8, Fid: 1, Offset: 0, Count: 4000})
				x.Probe("1100-users-attached")
			case 2:
				dd := filepath.Join(u.Root, "dd")
				os.MkdirAll(dd, 0o755)
				for k := 0; k < 8; k++ {
					os.WriteFile(filepath.Join(dd, string(rune('a'+k))), nil, 0o644)
				}
				ask(&Msg{Type: Twalk, Tag: 7, Fid: 0, Newfid: 10, Wname: []string{"dd"}})
				ask(&Msg{Type: Topen, Tag: 8, Fid: 10, Mode: 0})
				xoff := uint64(0)
				if rr := ask(&Msg{Type: Tread, Tag: 9, Fid: 10, Offset: 0, Count: 4000}); rr != nil && rr.M != nil && rr.M.Type == Rread {
					xoff = uint64(len(rr.M.Data))
				}
				for k := 0; k < 8; k++ {
					os.Remove(filepath.Join(dd, string(rune('a'+k))))
				}
				for k := 0; k < 3; k++ {
					os.WriteFile(filepath.Join(dd, strings.Repeat(string(rune('p'+k)), 200)), nil, 0o644)
				}
				ask(&Msg{Type: Tread, Tag: 10, Fid: 10, Offset: 0, Count: 10}) // too small: refused, the listing is rebuilt all the same
				ask(&Msg{Type: Tread, Tag: 11, Fid: 10, Offset: xoff, Count: 4000})
				ask(&Msg{Type: Tread, Tag: 12, Fid: 10, Offset: 0, Count: 4000})
				x.Probe("directory-changed-under-a-listing-fid")
				// and entries that vanish while listings of their directory are being built (symbolic links in
				// between: describing one takes a system call, which is where another goroutine gets its turn)
				ee := filepath.Join(u.Root, "ee")
				os.MkdirAll(ee, 0o755)
				for k := 0; k < 30; k++ {
					if k%2 == 0 {
						os.Symlink("x", filepath.Join(ee, fmt.Sprintf("l%02d", k)))
					} else {
						os.WriteFile(filepath.Join(ee, fmt.Sprintf("f%02d", k)), nil, 0o644)
					}
				}
				ask(&Msg{Type: Twalk, Tag: 13, Fid: 0, Newfid: 12, Wname: []string{"ee"}})
				ask(&Msg{Type: Topen, Tag: 14, Fid: 12, Mode: 0})
				listed := false
				rt.Go(rt.SiteSpawn, func() {
					rt.SetName("remover")
					for k := 1; k < 30 && !listed; k += 2 {
						os.Remove(filepath.Join(ee, fmt.Sprintf("f%02d", k)))
						for y := r.Intn(4); y >= 0; y-- {
							rt.Yield(rt.SiteActor)
						}
					}
				})
				for k := 0; k < 8; k++ {
					ask(&Msg{Type: Tread, Tag: uint16(20 + k), Fid: 12, Offset: 0, Count: 4000})
				}
				listed = true
				x.Probe("entries-removed-while-listings-are-built")
			case 5:
				for k := 0; k < 40 && !p.EOF; k++ {
					f := uint32(400 + k)
					if rr := ask(&Msg{Type: Twalk, Tag: uint16(100 + k), Fid: 0, Newfid: f, Wname: []string{"file"}}); rr == nil || rr.M == nil || rr.M.Type != Rwalk || len(rr.M.Wqid) != 1 {
						continue // the walk itself met a failing call
					}
					var burst []byte
					for j, t := range []uint8{Tstat, Topen, Tstat, Tstat, Tread, Tstat} {
						burst = append(burst, Encode(&Msg{Type: t, Tag: uint16(200 + 8*k + j), Fid: f, Mode: 0, Offset: 0, Count: 50}, p.Dotu)...)
					}
					before := len(p.Recv)
					p.WriteRaw(burst)
					for y := 0; y < 600 && len(p.Recv) < before+6 && !p.EOF; y++ {
						rt.Yield(rt.SiteActor)
					}
					ask(&Msg{Type: Tclunk, Tag: uint16(150 + k), Fid: f})
				}
				x.Probe("bursts-on-one-fid-under-os-errors")
			case 4:
				for k := 0; k < 40 && !p.EOF; k++ {
					tg := uint16(200 + 2*k)
					var m *Msg
					switch k % 8 {
					case 0:
						m = &Msg{Type: Tread, Tag: tg, Fid: 1, Offset: 0, Count: 4000} // the open directory
					case 1:
						m = &Msg{Type: Tread, Tag: tg, Fid: 2, Offset: 0, Count: 1000}
					case 2:
						m = &Msg{Type: Twalk, Tag: tg, Fid: 0, Newfid: uint32(300 + k), Wname: []string{"sub", "deep"}}
					case 3:
						m = &Msg{Type: Tstat, Tag: tg, Fid: 0}
					case 4:
						m = &Msg{Type: Topen, Tag: tg, Fid: uint32(300 + k - 2), Mode: 0}
					case 5:
						m = &Msg{Type: Tcreate, Tag: tg, Fid: uint32(300 + k - 3), Name: fmt.Sprintf("made%d", k), Perm: 0o644, Mode: 1}
					case 6:
						m = &Msg{Type: Twstat, Tag: tg, Fid: 2, Stat: nullStat(func(s *Stat) { s.Mtime = uint32(1500000000 + k) })}
					default:
						m = &Msg{Type: Tclunk, Tag: tg, Fid: uint32(300 + k - 5)}
					}
					before := len(p.Recv)
					p.WriteRaw(append(Encode(m, p.Dotu), Encode(&Msg{Type: Tflush, Tag: tg + 1, Oldtag: tg}, p.Dotu)...))
					for y := 0; y < 400 && len(p.Recv) < before+1 && !p.EOF; y++ {
						rt.Yield(rt.SiteActor)
					}
					for y := r.Intn(20); y > 0; y-- {
						rt.Yield(rt.SiteActor)
					}
				}
				x.Probe("tflush-sent-with-every-request")
			case 3:
				p.WriteRaw(Encode(&Msg{Type: Tstat, Tag: 77, Fid: 0}, p.Dotu))
				for y := 0; y < 200 && len(fs.HeldInvs()) == 0 && !p.EOF; y++ {
					rt.Yield(rt.SiteActor)
				}
				chain := []*Msg{{Type: Tattach, Tag: 77, Fid: 9, Afid: NOFID, Uname: "u1", Nuname: 1}, {Type: Tstat, Tag: 77, Fid: 0}, {Type: Twalk, Tag: 77, Fid: 0, Newfid: 11, Wname: []string{"a"}}}
				for _, m := range chain[:int(c.cfg("chain"))] {
					p.WriteRaw(Encode(m, p.Dotu))
				}
				ask(&Msg{Type: Tflush, Tag: 78, Oldtag: 77})
				if c.cfg("flushfirst") != 0 {
					ask(&Msg{Type: Tflush, Tag: 79, Oldtag: 77})
				}
				hostile.Clnt.Close()
				for y := r.Intn(30); y > 0; y-- {
					rt.Yield(rt.SiteActor)
				}
				for _, h := range fs.HeldInvs() {
					h.Released = true
				}
				x.Probe("tag-chain-cancelled-then-hangup")
			}
		}
		for i := 0; i < n && !p.EOF; i++ {
			switch gen {
			case 0:
				m := hostileMsg(r, eff)
				b := Encode(m, p.Dotu)
				if len(b) > int(eff) && r.Pct(80) {
					continue // mostly stay within msize so that the request is looked at, not just dropped
				}
				x.Probe("grammar-" + TypeName(m.Type))
				send(b)
			case 1:
				m := hostileMsg(r, eff)
				if r.Pct(70) {
					// start from a plausible request
					m = []*Msg{{Type: Tstat, Tag: 9, Fid: 1}, {Type: Tread, Tag: 9, Fid: 1, Offset: uint64(r.Intn(600)), Count: 100},
						{Type: Twalk, Tag: 9, Fid: 0, Newfid: 3, Wname: []string{"sub", "deep"}}, {Type: Tclunk, Tag: 9, Fid: 2},
						{Type: Twstat, Tag: 9, Fid: 2, Stat: nullStat(func(s *Stat) { s.Length = 5 })},
						{Type: Tcreate, Tag: 9, Fid: 1, Name: "new", Perm: 0o644, Mode: 1, Ext: ""}, {Type: Tattach, Tag: 9, Fid: 3, Afid: NOFID, Uname: "u1", Nuname: 1}}[r.Intn(7)]
				}
				b := Encode(m, p.Dotu)
				if len(b) > int(eff)+16 {
					continue
				}
				x.Fault("byte-mutation")
				send(mutateBytes(r, b))
			case 2:
				if r.Pct(15) {
					// crafted frames whose count field times the element size wraps around 16 or 32 bits
					n, body := r.Pick(5042, 10083, 15124, 0xFFFF), 0
					body = n * 13 % 65536
					if body > 200 {
						body = r.Intn(20)
					}
					typ := byte(r.Pick(Rwalk, Rwalk, Twalk, Rread, Twrite))
					b := append([]byte{byte(9 + body), byte((9 + body) >> 8), 0, 0, typ, 1, 0, byte(n), byte(n >> 8)}, make([]byte, body)...)
					x.Fault("raw-count-wraps")
					send(b)
					continue
				}
				b := make([]byte, r.Pick(1, 3, 4, 7, 8, 23, 100, 1000))
				for k := range b {
					b[k] = byte(r.Intn(256))
				}
				if r.Pct(40) && len(b) >= 7 {
					// plausible header in front of random bytes
					b[0], b[1], b[2], b[3] = byte(len(b)), byte(len(b)>>8), 0, 0
					b[4] = byte(100 + r.Intn(28))
				}
				x.Fault("raw-random-bytes")
				send(b)
			}
		}
	})
	if !x.Run() {
		return
	}
	stop = true
	if !x.Run() {
		return
	}
	if hostile.Peer.EOF {
		x.Probe("hostile-connection-dropped-by-server")
	}
	// a fresh connection is served afterwards
	if x.S.OSRate > 0 {
		x.FaultN("os-error", len(x.S.OSLog))
		x.S.OSRate = 0 // faults stop: the fresh connection must be served normally
	}
	fresh := newConn()
	ok := false
	rt.Go(rt.SiteSpawn, func() {
		rt.SetName("fresh")
		ok = rawAttach(fresh.Peer, 8192, true, "")
		if ok {
			rr := fresh.Peer.Call(&Msg{Type: Tstat, Tag: 7, Fid: 0})
			ok = rr != nil && rr.M != nil && (rr.M.Type == Rstat || (!useUfs && rr.M.Type == Rerror))
			if !ok && x.S.OSRate > 0 && rr != nil && rr.M != nil && rr.M.Type == Rerror {
				ok = true // served; the error is the injected one
			}
		}
	})
	if !x.Run() {
		return
	}
	if !ok {
		x.Violate("z2-later-connection", "a connection opened after the hostile one is not served")
	}
	if byOK && by.Peer.EOF {
		x.Violate("z2-bystander", "the bystander connection was dropped although it sent nothing wrong")
	}
	if byCalls >= 3 {
		x.Probe("bystander-worked-throughout")
	}
	var m1 runtime.MemStats
	runtime.ReadMemStats(&m1)
	if m1.TotalAlloc-m0.TotalAlloc > 768<<20 {
		x.Violate("z3-memory", "the run allocated %d MiB with msize <= 70000: a length field in a frame was turned into an allocation", (m1.TotalAlloc-m0.TotalAlloc)>>20)
	}
	_ = hostileDone
	_ = go9p.NOFID
	if u != nil {
		u.CountFaults()
	}
}
