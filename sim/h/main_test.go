package h

import (
	"encoding/json"
	"flag"
	"fmt"
	"io"
	"log"
	"os"
	"strings"
	"testing"
	"testing/synctest"

	"github.com/rminnich/go9p/vsim/rt"
)

var (
	fProp    = flag.String("prop", "", "property id")
	fBase    = flag.Uint64("base", 1, "base seed (VERIF_SEED)")
	fFrom    = flag.Int("from", 0, "first run index")
	fTo      = flag.Int("to", 1, "one past the last run index")
	fTier    = flag.String("tier", "quick", "quick|thorough")
	fOut     = flag.String("out", "", "result file (JSON lines, appended)")
	fReplay  = flag.String("replay", "", "run the case in this file instead of generating")
	fLenient = flag.Bool("lenient", false, "replay: take tape values modulo arity, exhausted tape yields 0")
	fTrace   = flag.Bool("trace", false, "keep the readable schedule in the result")
	fSamples = flag.Int("samples", 0, "write the case of the first N runs into the result")
	fRace    = flag.Bool("racebuild", false, "set by the driver for the race build")
	fScratch = flag.String("scratch", "", "scratch directory for file trees")
	fGenOnly = flag.Bool("genonly", false, "print generated cases, do not run")
	fGenCase = flag.Bool("gencase", false, "print generated cases as JSON, do not run")
	fDump    = flag.Bool("dump", false, "debug: print the case, wire logs, invocation log and schedule")
)

var out *os.File

// dumpLines collects human-readable logs of the last run when -dump is set.
var dumpLines []string

func dumpf(format string, a ...any) {
	if *fDump {
		dumpLines = append(dumpLines, fmt.Sprintf(format, a...))
	}
}

func emit(v any) {
	b, err := json.Marshal(v)
	if err != nil {
		panic(err)
	}
	b = append(b, '\n')
	if out != nil {
		out.Write(b)
	} else {
		os.Stdout.Write(b)
	}
}

func TestSim(t *testing.T) {
	log.SetOutput(io.Discard)
	if *fOut != "" {
		f, err := os.OpenFile(*fOut, os.O_WRONLY|os.O_CREATE|os.O_APPEND, 0o644)
		if err != nil {
			t.Fatal(err)
		}
		out = f
		defer f.Close()
	}
	if *fReplay != "" {
		b, err := os.ReadFile(*fReplay)
		if err != nil {
			t.Fatal(err)
		}
		c := &Case{}
		if err := json.Unmarshal(b, c); err != nil {
			t.Fatal(err)
		}
		if c.Tape != nil {
			c.Strict = !*fLenient
		}
		emit(map[string]any{"begin": 0, "seed": c.Seed})
		res := runCase(t, c, *fTrace)
		res.Case = nil
		emit(res)
		return
	}
	p := Props[*fProp]
	if p == nil {
		t.Fatalf("unknown property %q", *fProp)
	}
	for i := *fFrom; i < *fTo; i++ {
		seed := RunSeed(*fBase, p.ID, i)
		c := p.Gen(seed, i, *fTier)
		c.Version, c.Property, c.Seed = 1, p.ID, seed
		if *fGenCase {
			b, _ := json.Marshal(c)
			fmt.Println(string(b))
			continue
		}
		if *fGenOnly {
			fmt.Println(c.Brief())
			continue
		}
		if *fDump {
			fmt.Println(c.Brief())
			for i, o := range c.Ops {
				fmt.Printf("  op %d: %s\n", i, o)
			}
			res := runCase(t, c, true)
			for _, l := range res.Schedule {
				fmt.Println("   ", l)
			}
			for _, l := range dumpLines {
				fmt.Println(l)
			}
			for _, v := range res.Viol {
				fmt.Printf("VIOL %s: %s\n", v.Rule, v.Detail)
			}
			fmt.Println("trouble:", res.Trouble, "faults:", res.Faults, "probes:", res.Probes)
			continue
		}
		emit(map[string]any{"begin": i, "seed": seed})
		res := runCase(t, c, *fTrace)
		res.Run = i
		if len(res.Viol) > 0 || res.Trouble != "" {
			res.Case = c
		} else {
			res.Tape = nil
			if i-*fFrom < *fSamples {
				res.Sample = c.Brief()
			}
		}
		emit(res)
	}
}

// runCase executes one case in a fresh synctest bubble.
func runCase(t *testing.T, c *Case, keepTrace bool) (res *Result) {
	res = &Result{Seed: c.Seed, Stratum: c.Stratum, Faults: map[string]int{}, Probes: map[string]int{}}
	p := Props[c.Property]
	if p == nil {
		res.Trouble = "unknown property " + c.Property
		return
	}
	defer func() {
		if e := recover(); e != nil {
			if !strings.Contains(fmt.Sprint(e), "main bubble goroutine has exited") {
				panic(e)
			}
		}
	}()
	synctest.Test(t, func(t *testing.T) {
		s := rt.New(c.Seed)
		s.KeepTrace = keepTrace
		if c.Tape != nil {
			s.SetReplay(c.Tape, c.Strict)
		}
		if ms := c.cfg("maxsteps"); ms > 0 {
			s.MaxSteps = int(ms)
		}
		s.SetPolicy(int(c.cfg("policy")), 3000)
		x := &Ctx{S: s, C: c, Res: res, Race: *fRace}
		p.Exec(x)
		finish(x)
	})
	return
}

func finish(x *Ctx) {
	s, res := x.S, x.Res
	x.flushCounters()
	res.Steps = s.Steps
	res.Multi = s.Multi
	res.Hash = fmt.Sprintf("%016x", s.Hash)
	res.SchedHash = fmt.Sprintf("%016x", s.SchedHash)
	res.Policy = s.Policy
	res.Tape = s.Tape
	if s.Panic != nil {
		fns := panicSites(s.Panic.Stack)
		dumpf("PANIC STACK:\n%s", s.Panic.Stack)
		if strings.HasPrefix(fns[0], "harness:") {
			x.Trouble("harness panic in goroutine %s: %s @ %s\n%s", s.Panic.G, s.Panic.Value, fns[0], s.Panic.Stack)
		}
		x.Violate("panic@"+fns[0], "goroutine %s panicked: %s @ %s", strings.TrimSpace(s.Panic.G), s.Panic.Value, strings.Join(fns, " < "))
	}
	if s.Exhausted {
		x.Trouble("step budget of %d exhausted", s.MaxSteps)
	}
	if s.Diverged != "" {
		x.Trouble("replay diverged: %s", s.Diverged)
	}
	if x.C.ExpectHash != "" && x.C.Strict && res.Hash != x.C.ExpectHash && res.Trouble == "" {
		x.Trouble("replay diverged: event hash %s, expected %s", res.Hash, x.C.ExpectHash)
	}
	res.Nontrivial = s.Multi >= 10 && len(res.Faults) > 0
	if s.KeepTrace {
		for _, e := range s.Trace {
			if e.Note != "" {
				res.Schedule = append(res.Schedule, fmt.Sprintf("%d -- %s", e.Step, e.Note))
			} else {
				res.Schedule = append(res.Schedule, fmt.Sprintf("%d %s %s", e.Step, e.G, rt.SiteName(e.Site)))
			}
		}
	}
}

// panicSites extracts the innermost go9p functions from a panic stack; if
// the innermost non-runtime frame belongs to the harness, the panic is the
// harness's own and is labelled so.
func panicSites(stack string) []string {
	const pfx = "github.com/rminnich/go9p."
	const hpfx = "github.com/rminnich/go9p/vsim/"
	var fns []string
	lines := strings.Split(stack, "\n")
	// skip to the frame below the last "panic(" line
	start := 0
	for i, ln := range lines {
		if strings.HasPrefix(ln, "panic(") {
			start = i + 2
		}
	}
	for _, ln := range lines[start:] {
		ln = strings.TrimSpace(ln)
		if strings.HasPrefix(ln, hpfx) {
			if len(fns) == 0 {
				fn := ln[len(hpfx):]
				if i := strings.LastIndexByte(fn, '('); i > 0 {
					fn = fn[:i]
				}
				if strings.HasPrefix(fn, "rt.") {
					continue
				}
				return []string{"harness:" + fn}
			}
			continue
		}
		if strings.HasPrefix(ln, pfx) {
			fn := ln[len(pfx):]
			if i := strings.LastIndexByte(fn, '('); i > 0 {
				fn = fn[:i]
			}
			fn = strings.NewReplacer("(*", "", ")", "").Replace(fn)
			if len(fns) < 4 {
				fns = append(fns, fn)
			}
		}
	}
	if len(fns) > 0 {
		return fns
	}
	return []string{"unknown"}
}
