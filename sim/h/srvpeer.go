package h

import (
	"fmt"

	"github.com/rminnich/go9p/vsim/rt"
)

// PReq is one request as seen by the scripted server peer.
type PReq struct {
	Idx        int
	M          *Msg
	Raw        []byte
	ArrStep    int
	Reply      []byte
	ReplyStart int // offsets in the server->client stream
	ReplyEnd   int
	Answered   bool
	AnsStep    int
	Hold       bool // reply withheld until released
	Bad        bool // reply deliberately unparseable / for an unknown tag
}

// SrvPeer is a harness-side 9P server endpoint with its own codec: it decodes
// what the library client writes and answers as the property's script says.
type SrvPeer struct {
	x     *Ctx
	conn  *rt.Conn
	Dotu  bool
	Msize uint32
	Reqs  []*PReq
	// Handle is called by the reader goroutine for every decoded request.
	Handle func(p *SrvPeer, r *PReq)

	wbusy       bool
	BadFrame    string
	EOF         bool
	ReadErr     error
	StopReading bool
	outstanding map[uint16]int
	SharedTags  map[uint16]bool // tags deliberately shared (Tag interface)
	NoDupCheck  bool
	NoTagRules  bool // tag discipline is C09's business; after a connection failure the client's last writes are not judged
	MaxOutst    int
	nOutst      int
	TagReuse    int
	seenTags    map[uint16]bool
	FailPos     int // server->client stream offset where an unparseable/unknown reply starts (-1: none)
	G           *rt.G
}

func NewSrvPeer(x *Ctx, conn *rt.Conn, msize uint32, dotu bool) *SrvPeer {
	return &SrvPeer{x: x, conn: conn, Msize: msize, Dotu: dotu, outstanding: map[uint16]int{},
		SharedTags: map[uint16]bool{}, seenTags: map[uint16]bool{}, FailPos: -1}
}

func (p *SrvPeer) Start() {
	p.G = rt.Go(rt.SiteSpawn, func() {
		rt.SetName("srvpeer-reader")
		rt.HarnessOnly()
		var fr Framer
		buf := make([]byte, 1<<16)
		for {
			if p.StopReading {
				rt.YieldUntil(rt.SiteActor, func() bool { return !p.StopReading })
			}
			n, err := p.conn.Read(buf)
			if err != nil {
				p.EOF = true
				p.ReadErr = err
				return
			}
			fr.Feed(buf[:n])
			for {
				f, _, bad := fr.Next()
				if bad {
					p.BadFrame = "client sent a frame with size < 7"
					p.x.Violate("wire", "library client wrote a frame with size prefix < 7")
					return
				}
				if f == nil {
					break
				}
				// A Tversion is always decodable in either dialect; later
				// messages use the negotiated dialect.
				m, err := Decode(f, p.Dotu)
				if err != nil {
					p.BadFrame = err.Error()
					p.x.Violate("wire", "library client wrote an undecodable frame: %v (% x)", err, head(f, 32))
					return
				}
				r := &PReq{Idx: len(p.Reqs), M: m, Raw: f, ArrStep: rt.Step(), ReplyStart: -1, ReplyEnd: -1}
				p.Reqs = append(p.Reqs, r)
				p.noteTag(m)
				if p.Handle != nil {
					p.Handle(p, r)
				}
			}
		}
	})
}

func head(b []byte, n int) []byte {
	if len(b) > n {
		return b[:n]
	}
	return b
}

func (p *SrvPeer) noteTag(m *Msg) {
	if p.NoTagRules {
		p.outstanding[m.Tag]++
		return
	}
	if m.Type == Tversion {
		if m.Tag != NOTAG {
			p.x.Violate("tag-version", "Tversion sent with tag %d, not NOTAG", m.Tag)
		}
		return
	}
	if m.Tag == NOTAG {
		p.x.Violate("tag-notag", "%s sent with NOTAG", TypeName(m.Type))
	}
	if p.outstanding[m.Tag] > 0 && !p.SharedTags[m.Tag] && !p.NoDupCheck {
		p.x.Violate("tag-dup", "%s arrived with tag %d while a request with that tag is outstanding", TypeName(m.Type), m.Tag)
	}
	if p.seenTags[m.Tag] && p.outstanding[m.Tag] == 0 {
		p.TagReuse++
	}
	p.seenTags[m.Tag] = true
	p.outstanding[m.Tag]++
	p.nOutst++
	if p.nOutst > p.MaxOutst {
		p.MaxOutst = p.nOutst
	}
}

// Send writes one reply frame atomically with respect to other answerers.
func (p *SrvPeer) Send(r *PReq, b []byte) {
	rt.YieldUntil(rt.SiteActor, func() bool { return !p.wbusy })
	p.wbusy = true
	start := p.conn.Out.Written
	if r != nil && r.Bad && p.FailPos < 0 {
		p.FailPos = start
	}
	p.conn.Write(b)
	p.wbusy = false
	if r != nil {
		r.Reply = b
		r.ReplyStart = start
		r.ReplyEnd = start + len(b)
		r.Answered = true
		r.AnsStep = rt.Step()
		if p.outstanding[r.M.Tag] > 0 {
			p.outstanding[r.M.Tag]--
			if !p.NoTagRules && r.M.Type != Tversion {
				p.nOutst--
			}
		}
	}
}

// SendLater answers from a separate actor goroutine, so that the scheduler
// decides the order in which outstanding requests are answered.
func (p *SrvPeer) SendLater(r *PReq, b []byte) {
	rt.Go(rt.SiteSpawn, func() {
		rt.SetName(fmt.Sprintf("answer-%d", r.Idx))
		rt.HarnessOnly()
		if r.Hold {
			rt.YieldUntil(rt.SiteHold, func() bool { return !r.Hold })
		}
		p.Send(r, b)
	})
}

// StdReply is the scripted server's reply: a function of the request alone,
// and (for reads, stats, walks) unique to it, so that a caller can tell its
// own reply from anybody else's.
func StdReply(m *Msg, srvMsize uint32, srvDotu bool) *Msg {
	r := &Msg{Type: m.Type + 1, Tag: m.Tag}
	switch m.Type {
	case Tversion:
		r.Msize = m.Msize
		if srvMsize < r.Msize {
			r.Msize = srvMsize
		}
		r.Version = "9P2000"
		if srvDotu && m.Version == "9P2000.u" {
			r.Version = "9P2000.u"
		}
	case Tauth:
		r.Qid = Qid{Type: 0x08, Path: uint64(m.Afid)}
	case Tattach:
		r.Qid = Qid{Type: 0x80, Vers: 1, Path: uint64(m.Fid)}
	case Twalk:
		for i, w := range m.Wname {
			// two names the scripted tree does not have: "nope" is refused, the walk stops in front of "short"
			if w == "nope" || (w == "short" && i == 0) {
				return &Msg{Type: Rerror, Tag: m.Tag, Ename: "file not found", Errno: 2}
			}
			if w == "short" {
				break
			}
			r.Wqid = append(r.Wqid, walkQid(m.Fid, i, w))
		}
	case Topen, Tcreate:
		r.Qid = Qid{Type: 0, Vers: uint32(m.Mode), Path: uint64(m.Fid) ^ 0x5555}
		r.Iounit = 0
	case Tread:
		r.Data = pattern(int(m.Count), uint64(m.Fid), m.Offset, uint64(m.Count))
		r.Count = m.Count
	case Twrite:
		r.Count = uint32(len(m.Data))
	case Tstat:
		r.Stat = statFor(m.Fid)
	}
	return r
}

func walkQid(fid uint32, i int, name string) Qid {
	h := uint64(fid)*131 + uint64(i)
	for _, c := range []byte(name) {
		h = h*31 + uint64(c)
	}
	return Qid{Type: 0x80, Vers: uint32(i), Path: h}
}

func statFor(fid uint32) Stat {
	return Stat{Type: 7, Dev: fid, Qid: Qid{Type: 0, Vers: 3, Path: uint64(fid) * 7}, Mode: 0o644, Atime: 11, Mtime: fid ^ 0xABCD,
		Length: uint64(fid)*3 + 1, Name: fmt.Sprintf("f%08x", fid), Uid: "u", Gid: "g", Muid: "m", Ext: "", Nuid: 1, Ngid: 2, Nmuid: 3}
}
