package h

// C19 — no data races when concurrent requests operate on different fids
// (DESIGN.md §3.7, §4 C19). The workloads of the other checks run in the race
// build: harness and scheduler are compiled without race instrumentation and
// every park/release is hidden from the detector, so the happens-before graph
// it sees is the library's own while the schedule stays seeded. A report makes
// the race runtime exit the child (GORACE=halt_on_error=1); the driver turns
// it into the violation race@<functions>.

import (
	"fmt"
	"os"
	"path/filepath"

	"github.com/rminnich/go9p"
	"github.com/rminnich/go9p/vsim/rt"
)

func init() { register(&Property{ID: "C19", Gen: c19Gen, Exec: c19Exec}) }

func c19Gen(seed uint64, run int, tier string) *Case {
	var c *Case
	switch run % 6 {
	case 0:
		c = c03Gen(seed, 0, tier) // single-answer stratum of C03
		c.Stratum = "script/pipelined"
		c.Cfg["wl"] = 0
	case 1:
		c = c07Gen(seed, run, tier)
		c.Stratum = "script/flushes"
		c.Cfg["wl"] = 1
		c.Cfg["flushalways"] = 0 // the recorded C07 finding (a Flush hook cancelling requests it has not seen) is a race by construction
	case 2:
		r := NewRand(seed)
		c = &Case{Cfg: map[string]int64{}}
		genCommon(r, c.Cfg)
		c.Stratum = "ufs/shared-client"
		c.Cfg["wl"] = 2
		c.Cfg["iounit"] = int64(r.Pick(256, 4096))
		c.Cfg["dotu"] = int64(r.Intn(2))
		c.Cfg["callers"] = int64(r.Range(2, 8))
		c.Cfg["nops"] = int64(r.Range(3, 10))
		c.Cfg["maxpend"] = int64(r.Pick(0, 2, 64))
		c.Cfg["mounts"] = int64(r.Pick(1, 1, 2, 3))
	case 4:
		r := NewRand(seed)
		c = &Case{Cfg: map[string]int64{}}
		genCommon(r, c.Cfg)
		c.Stratum = "client/shared-client"
		c.Cfg["wl"] = 4
		c.Cfg["msize"] = int64(r.Pick(256, 1024, 8192))
		c.Cfg["dotu"] = int64(r.Intn(2))
		c.Cfg["callers"] = int64(r.Range(2, 8))
		c.Cfg["nops"] = int64(r.Range(2, 8))
		c.Cfg["holdpct"] = int64(r.Pick(0, 30, 60))
		c.Cfg["clog"] = int64(r.Pick(0, 0, go9p.DbgLogFcalls, go9p.DbgLogPackets, go9p.DbgLogFcalls|go9p.DbgLogPackets))
	case 5:
		r := NewRand(seed)
		c = &Case{Cfg: map[string]int64{}}
		genCommon(r, c.Cfg)
		c.Stratum = "logger"
		c.Cfg["wl"] = 5
		c.Cfg["cap"] = int64(r.Pick(1, 2, 5, 16))
		c.Cfg["producers"] = int64(r.Range(2, 4))
		c.Cfg["filterers"] = int64(r.Range(1, 3))
		c.Cfg["nops"] = int64(r.Range(3, 40))
	default:
		r := NewRand(seed)
		c = &Case{Cfg: map[string]int64{}}
		genSrvCfg(r, c, tier)
		c.Stratum = "script/connection-churn"
		c.Cfg["wl"] = 3
		c.Cfg["nconn"] = 2
		c.Cfg["churn"] = int64(r.Range(1, 4))
		for ci := 0; ci < 2; ci++ {
			for i := r.Range(3, 12); i > 0; i-- {
				ti := r.Intn(nWTypes)
				cnt := r.Pick(0, 1, 13, 100)
				if ti == wtWalk {
					cnt = r.Intn(4)
				}
				c.Ops = append(c.Ops, reqOp(ci, ti, i, r.Pick(PNow, PNow, PAfter, PAsync, PHold), r.Pct(15), cnt, r.Pct(40), 0))
			}
		}
	}
	if c.Cfg["seg"] == rt.SegOne {
		c.Cfg["seg"] = rt.SegTiny
	}
	return c
}

func c19Exec(x *Ctx) {
	switch x.C.cfg("wl") {
	case 0:
		c03Exec(x)
	case 1:
		c07Exec(x)
	case 2:
		c19Ufs(x)
	case 4:
		c19Clnt(x)
	case 5:
		c19Logger(x)
	default:
		c19Churn(x)
	}
	// only the race detector (and a crash) decides C19: the other properties' rules are theirs
	var keep []Violation
	for _, v := range x.Res.Viol {
		if len(v.Rule) >= 5 && (v.Rule[:5] == "panic" || v.Rule[:4] == "race") {
			keep = append(keep, v)
		}
	}
	x.Res.Viol = keep
	x.Fault("race-detector-run")
}

// c19Ufs: one client shared by many goroutines, each on its own files, all walking from the shared root fid.
func c19Ufs(x *Ctx) {
	c := x.C
	iounit := uint32(c.cfg("iounit"))
	srvMsize := iounit + 24
	if c.Seed%3 == 0 {
		srvMsize = 200 // the server settles for less than the clients propose
	}
	u := NewUfsSys(x, srvMsize, true, int(c.cfg("maxpend")), int(c.cfg("debug")))
	if u == nil {
		return
	}
	defer u.Cleanup()
	os.MkdirAll(filepath.Join(u.Root, "shared", "d1", "d2"), 0o755)
	for i := 0; i < 6; i++ {
		os.WriteFile(filepath.Join(u.Root, "shared", fmt.Sprintf("e%d", i)), pattern(100*i, 1, 1, 1), 0o644)
		// owners the server has not met before (ids drawn per case): whatever it remembers about users and groups
		// is first filled while the callers are at work, in this process as in a fresh one
		os.Chown(filepath.Join(u.Root, "shared", fmt.Sprintf("e%d", i)), 61000+int(c.Seed%2000)*8+i, 63000+int(c.Seed%2000)*8+i)
	}
	go9p.DefaultDebuglevel, go9p.DefaultLogger = 0, nil
	n := int(c.cfg("callers"))
	nops := int(c.cfg("nops"))
	rt.Go(rt.SiteSpawn, func() {
		rt.SetName("main")
		// one to three connections, each shared by some of the callers
		var clnts []*go9p.Clnt
		for m := int(c.cfg("mounts")); m > 0 || len(clnts) == 0; m-- {
			cl, _, err := u.Mount(iounit, c.cfg("dotu") != 0, int(c.cfg("seg")), "")
			if err != nil {
				return
			}
			clnts = append(clnts, cl)
		}
		for ci := 0; ci < n; ci++ {
			ci := ci
			clnt := clnts[ci%len(clnts)]
			rt.Go(rt.SiteSpawn, func() {
				rt.SetName(fmt.Sprintf("caller%d", ci))
				r := NewRand(c.Seed ^ uint64(ci+1)*977)
				name := fmt.Sprintf("own-%d", ci)
				f, err := clnt.FCreate(name, 0o644, go9p.ORDWR)
				if err != nil {
					return
				}
				for k := 0; k < nops; k++ {
					switch r.Intn(11) {
					case 9:
						// look-ups of names that do not exist, from the shared root fid (first element missing) and deeper
						clnt.FStat(fmt.Sprintf("no-such-%d", r.Intn(3)))
					case 10:
						nf := clnt.FidAlloc()
						if _, err := clnt.Walk(clnt.Root, nf, []string{[]string{"missing", "shared"}[r.Intn(2)], "missing-too"}); err == nil {
							clnt.Clunk(nf)
						}
					case 7:
						// a walk that goes up again
						nf := clnt.FidAlloc()
						if _, err := clnt.Walk(clnt.Root, nf, []string{"shared", "..", "shared", "d1", ".."}); err == nil {
							clnt.Clunk(nf)
						}
					case 8:
						// rename of the caller's own file, there and back
						for _, nn := range []string{name + "-r", name} {
							d := &go9p.Dir{Type: 0xFFFF, Dev: 0xFFFFFFFF, Mode: 0xFFFFFFFF, Atime: 0xFFFFFFFF, Mtime: 0xFFFFFFFF, Length: ^uint64(0),
								Uidnum: 0xFFFFFFFF, Gidnum: 0xFFFFFFFF, Muidnum: 0xFFFFFFFF, Name: nn}
							d.Qid.Type, d.Qid.Version, d.Qid.Path = 0xFF, 0xFFFFFFFF, ^uint64(0)
							clnt.Wstat(f.Fid, d)
						}
					case 0:
						f.WriteAt(pattern(r.Pick(1, 50, int(iounit)), uint64(ci), uint64(k), 0), int64(r.Intn(500)))
					case 1:
						f.ReadAt(make([]byte, r.Pick(1, 100, int(iounit))), int64(r.Intn(500)))
					case 2:
						clnt.FStat("shared/d1/d2")
					case 3:
						if d, err := clnt.FOpen("shared", go9p.OREAD); err == nil {
							d.Readdir(0)
							d.Close()
						}
					case 4:
						clnt.Stat(f.Fid)
					case 5:
						if g, err := clnt.FOpen(fmt.Sprintf("shared/e%d", r.Intn(6)), go9p.OREAD); err == nil {
							g.Read(make([]byte, 64))
							g.Close()
						}
					case 6:
						nf := clnt.FidAlloc()
						if _, err := clnt.Walk(clnt.Root, nf, []string{"shared", "d1"}); err == nil {
							clnt.Clunk(nf)
						}
					}
				}
				f.Close()
				if r.Bool() {
					clnt.FRemove(name)
				}
			})
		}
	})
	x.Run()
	u.CountFaults()
}

// c19Churn: connections are opened and dropped (once their own requests have been answered) while others stay busy.
func c19Churn(x *Ctx) {
	w := NewSrvWork(x, false)
	w.Start()
	churn := int(x.C.cfg("churn"))
	rt.Go(rt.SiteSpawn, func() {
		rt.SetName("churner")
		rt.HarnessOnly()
		for k := 0; k < churn; k++ {
			sc := w.sys.AddConn(0, int(x.C.cfg("seg")))
			p := sc.Peer
			if !rawAttach(p, 1024, k%2 == 0, "") {
				return
			}
			p.Call(&Msg{Type: Twalk, Tag: 2, Fid: 0, Newfid: 1, Wname: []string{"a"}})
			p.Call(&Msg{Type: Tstat, Tag: 3, Fid: 1})
			p.Call(&Msg{Type: Tclunk, Tag: 4, Fid: 1})
			// every request of this connection has been answered: drop it
			sc.Clnt.Close()
			for y := 0; y < 5; y++ {
				rt.Yield(rt.SiteActor)
			}
		}
	})
	if x.C.Seed%2 == 0 {
		// two more connections, one of which negotiated so small an msize (24..31) that the framework's own error
		// texts have to be cut down for it, provoke the same framework errors at the same time
		for k := 0; k < 2; k++ {
			k := k
			ms := uint32(8192)
			if k == 0 {
				ms = uint32(24 + x.C.Seed/2%8)
			}
			rt.Go(rt.SiteSpawn, func() {
				rt.SetName(fmt.Sprintf("error-provoker%d", k))
				rt.HarnessOnly()
				sc := w.sys.AddConn(0, int(x.C.cfg("seg")))
				p := sc.Peer
				if r := p.Call(&Msg{Type: Tversion, Tag: NOTAG, Msize: ms, Version: "9P2000"}); r == nil || r.M == nil || r.M.Type != Rversion {
					return
				}
				p.Call(&Msg{Type: Tattach, Tag: 1, Fid: 0, Afid: NOFID, Uname: "u", Nuname: 1})
				for i := 0; i < 4; i++ {
					p.Call(&Msg{Type: Tattach, Tag: 2, Fid: 0, Afid: NOFID, Uname: "u", Nuname: 1}) // fid already in use
					p.Call(&Msg{Type: Tauth, Tag: 3, Afid: 5, Uname: "u", Nuname: 1})               // no authentication required
					p.Call(&Msg{Type: Topen, Tag: 4, Fid: 0, Mode: 1})                              // a directory, for writing
				}
				sc.Clnt.Close()
			})
		}
		x.Probe("framework-errors-on-a-tiny-msize-connection")
	}
	w.RunPhases()
}

// c19Clnt: the client library shared by many goroutines, each on its own fids, against the scripted server peer
// (whose goroutines are harness-only); optionally with the client's packet / fcall logging switched on and a
// goroutine reading the log meanwhile.
func c19Clnt(x *Ctx) {
	c := x.C
	msize := uint32(c.cfg("msize"))
	clog := int(c.cfg("clog"))
	go9p.DefaultDebuglevel = clog
	go9p.DefaultLogger = nil
	if clog != 0 {
		go9p.DefaultLogger = go9p.NewLogger(16)
	}
	cs, cc := rt.NewPipePair(0, "srv", "clnt")
	cc.In.Seg, cs.In.Seg = int(c.cfg("seg")), int(c.cfg("seg"))
	smsize := msize
	if c.Seed%3 == 0 {
		smsize = msize / 2 // the server settles for less than the client proposed
	}
	peer := NewSrvPeer(x, cs, smsize, c.cfg("dotu") != 0)
	peer.NoDupCheck = true
	holdpct := int(c.cfg("holdpct"))
	peer.Handle = func(p *SrvPeer, r *PReq) {
		rep := StdReply(r.M, p.Msize, p.Dotu)
		if r.M.Type == Tversion {
			p.Dotu = rep.Version == "9P2000.u"
			p.Send(r, Encode(rep, false))
			return
		}
		if r.M.Type == Tread && r.M.Offset >= 1<<40 {
			p.Send(r, Encode(rep, p.Dotu)) // Tag interface: answered in arrival order
			return
		}
		if r.M.Type != Tattach && holdpct > 0 && rt.Choose(100) < holdpct {
			r.Hold = true
		}
		p.SendLater(r, Encode(rep, p.Dotu))
	}
	peer.Start()
	n, nops := int(c.cfg("callers")), int(c.cfg("nops"))
	rt.Go(rt.SiteSpawn, func() {
		rt.SetName("main")
		clnt, err := go9p.Connect(cc, msize, c.cfg("dotu") != 0)
		if err != nil {
			return
		}
		root, err := clnt.Attach(nil, go9p.OsUsers.Uid2User(0), "")
		if err != nil {
			return
		}
		clnt.Root = root
		if clog != 0 {
			rt.Go(rt.SiteSpawn, func() {
				rt.SetName("log-reader")
				for k := 0; k < 4; k++ {
					for _, l := range clnt.Log.Filter(clnt, clog&^3|go9p.DbgLogFcalls|go9p.DbgLogPackets) {
						_ = l.Type
					}
					rt.Yield(rt.SiteActor)
				}
			})
		}
		for ci := 0; ci < n; ci++ {
			ci := ci
			rt.Go(rt.SiteSpawn, func() {
				rt.SetName(fmt.Sprintf("caller%d", ci))
				r := NewRand(c.Seed ^ uint64(ci+1)*7919)
				fid := clnt.FidAlloc()
				if _, err := clnt.Walk(clnt.Root, fid, []string{fmt.Sprintf("f%d", ci)}); err != nil {
					return
				}
				if err := clnt.Open(fid, go9p.ORDWR); err != nil {
					return
				}
				for k := 0; k < nops; k++ {
					switch r.Intn(7) {
					case 0:
						clnt.Read(fid, uint64(k*100), uint32(r.Pick(0, 1, 40, int(msize)/2)))
					case 1:
						clnt.Write(fid, pattern(r.Pick(1, 9, 60), uint64(fid.Fid), uint64(k), 7), uint64(k))
					case 2:
						clnt.Stat(fid)
					case 3:
						nf := clnt.FidAlloc()
						if _, err := clnt.Walk(fid, nf, []string{"x"}); err == nil {
							clnt.Clunk(nf)
						}
					case 4:
						// pipelined reads on a shared tag
						ch := make(chan *go9p.Req, 8)
						tag := clnt.TagAlloc(ch)
						pending := 0
						for j := 0; j < 3; j++ {
							if tag.Read(fid, uint64(1)<<40|uint64(ci)<<20|uint64(k*8+j), 8) == nil {
								pending++
							}
						}
						for ; pending > 0; pending-- {
							<-ch
						}
						clnt.TagFree(tag)
					case 5:
						f := go9p.FidFile(fid, 0)
						f.ReadAt(make([]byte, 30), int64(k))
					case 6:
						// the other requests of the Tag interface, on fids of the caller's own; some are refused
						ch := make(chan *go9p.Req, 8)
						tag := clnt.TagAlloc(ch)
						nf, nf2 := clnt.FidAlloc(), clnt.FidAlloc()
						pending := 0
						for _, err := range []error{
							tag.Walk(fid, nf, []string{[]string{"x", "nope"}[r.Intn(2)]}),
							tag.Walk(fid, nf2, []string{"short", "y"}),
							tag.Stat(fid),
						} {
							if err == nil {
								pending++
							}
						}
						for ; pending > 0; pending-- {
							<-ch
						}
						if tag.Open(nf, go9p.OREAD) == nil {
							<-ch
						}
						if tag.Create(nf2, "n", 0o644, go9p.OWRITE, "") == nil {
							<-ch
						}
						if tag.Clunk(nf) == nil {
							<-ch
						}
						clnt.TagFree(tag)
					}
				}
				clnt.Clunk(fid)
			})
		}
	})
	for {
		if !x.Run() {
			return
		}
		var held []*PReq
		for _, r := range peer.Reqs {
			if r.Hold {
				held = append(held, r)
			}
		}
		if len(held) == 0 {
			break
		}
		held[x.S.Choose(len(held))].Hold = false
	}
	x.FaultN("seg-split", cc.In.Splits+cs.In.Splits)
}

// c19Logger: one Logger used from several goroutines at once.
func c19Logger(x *Ctx) {
	c := x.C
	lg := go9p.NewLogger(int(c.cfg("cap")))
	owners := []interface{}{0, 1, 2}
	nops := int(c.cfg("nops"))
	for pi := int(c.cfg("producers")); pi > 0; pi-- {
		pi := pi
		rt.Go(rt.SiteSpawn, func() {
			rt.SetName("producer")
			for k := 0; k < nops; k++ {
				lg.Log(pi*1000+k, owners[(pi+k)%3], 1<<uint(k%3))
			}
		})
	}
	for fi := int(c.cfg("filterers")); fi > 0; fi-- {
		fi := fi
		rt.Go(rt.SiteSpawn, func() {
			rt.SetName("filterer")
			for k := 0; k < nops/2+1; k++ {
				for _, l := range lg.Filter(owners[(fi+k)%3], (k%7)+1) {
					_, _, _ = l.Data, l.Owner, l.Type
				}
				rt.Yield(rt.SiteActor)
			}
		})
	}
	x.Run()
}
