package h

// C19 — no data races when concurrent requests operate on different fids
// (DESIGN.md §3.7, §4 C19). The workloads of the other checks run in the race
// build: harness and scheduler are compiled without race instrumentation and
// every park/release is hidden from the detector, so the happens-before graph
// it sees is the library's own while the schedule stays seeded. A report makes
// the race runtime exit the child (GORACE=halt_on_error=1); the driver turns
// it into the violation race@<functions>.

import (
	"fmt"
	"os"
	"path/filepath"

	"github.com/rminnich/go9p"
	"github.com/rminnich/go9p/vsim/rt"
)

func init() { register(&Property{ID: "C19", Gen: c19Gen, Exec: c19Exec}) }

func c19Gen(seed uint64, run int, tier string) *Case {
	var c *Case
	switch run % 4 {
	case 0:
		c = c03Gen(seed, 0, tier) // single-answer stratum of C03
		c.Stratum = "script/pipelined"
		c.Cfg["wl"] = 0
	case 1:
		c = c07Gen(seed, run, tier)
		c.Stratum = "script/flushes"
		c.Cfg["wl"] = 1
		c.Cfg["flushalways"] = 0 // the recorded C07 finding (a Flush hook cancelling requests it has not seen) is a race by construction
	case 2:
		r := NewRand(seed)
		c = &Case{Cfg: map[string]int64{}}
		genCommon(r, c.Cfg)
		c.Stratum = "ufs/shared-client"
		c.Cfg["wl"] = 2
		c.Cfg["iounit"] = int64(r.Pick(256, 4096))
		c.Cfg["dotu"] = int64(r.Intn(2))
		c.Cfg["callers"] = int64(r.Range(2, 8))
		c.Cfg["nops"] = int64(r.Range(3, 10))
		c.Cfg["maxpend"] = int64(r.Pick(0, 2, 64))
	default:
		r := NewRand(seed)
		c = &Case{Cfg: map[string]int64{}}
		genSrvCfg(r, c, tier)
		c.Stratum = "script/connection-churn"
		c.Cfg["wl"] = 3
		c.Cfg["nconn"] = 2
		c.Cfg["churn"] = int64(r.Range(1, 4))
		for ci := 0; ci < 2; ci++ {
			for i := r.Range(3, 12); i > 0; i-- {
				ti := r.Intn(nWTypes)
				cnt := r.Pick(0, 1, 13, 100)
				if ti == wtWalk {
					cnt = r.Intn(4)
				}
				c.Ops = append(c.Ops, reqOp(ci, ti, i, r.Pick(PNow, PNow, PAfter, PAsync, PHold), r.Pct(15), cnt, r.Pct(40), 0))
			}
		}
	}
	if c.Cfg["seg"] == rt.SegOne {
		c.Cfg["seg"] = rt.SegTiny
	}
	return c
}

func c19Exec(x *Ctx) {
	switch x.C.cfg("wl") {
	case 0:
		c03Exec(x)
	case 1:
		c07Exec(x)
	case 2:
		c19Ufs(x)
	default:
		c19Churn(x)
	}
	// only the race detector (and a crash) decides C19: the other properties' rules are theirs
	var keep []Violation
	for _, v := range x.Res.Viol {
		if len(v.Rule) >= 5 && (v.Rule[:5] == "panic" || v.Rule[:4] == "race") {
			keep = append(keep, v)
		}
	}
	x.Res.Viol = keep
	x.Fault("race-detector-run")
}

// c19Ufs: one client shared by many goroutines, each on its own files, all walking from the shared root fid.
func c19Ufs(x *Ctx) {
	c := x.C
	iounit := uint32(c.cfg("iounit"))
	u := NewUfsSys(x, iounit+24, true, int(c.cfg("maxpend")), int(c.cfg("debug")))
	if u == nil {
		return
	}
	defer u.Cleanup()
	os.MkdirAll(filepath.Join(u.Root, "shared", "d1", "d2"), 0o755)
	for i := 0; i < 6; i++ {
		os.WriteFile(filepath.Join(u.Root, "shared", fmt.Sprintf("e%d", i)), pattern(100*i, 1, 1, 1), 0o644)
	}
	go9p.DefaultDebuglevel, go9p.DefaultLogger = 0, nil
	n := int(c.cfg("callers"))
	nops := int(c.cfg("nops"))
	rt.Go(rt.SiteSpawn, func() {
		rt.SetName("main")
		clnt, _, err := u.Mount(iounit, c.cfg("dotu") != 0, int(c.cfg("seg")), "")
		if err != nil {
			return
		}
		for ci := 0; ci < n; ci++ {
			ci := ci
			rt.Go(rt.SiteSpawn, func() {
				rt.SetName(fmt.Sprintf("caller%d", ci))
				r := NewRand(c.Seed ^ uint64(ci+1)*977)
				name := fmt.Sprintf("own-%d", ci)
				f, err := clnt.FCreate(name, 0o644, go9p.ORDWR)
				if err != nil {
					return
				}
				for k := 0; k < nops; k++ {
					switch r.Intn(7) {
					case 0:
						f.WriteAt(pattern(r.Pick(1, 50, int(iounit)), uint64(ci), uint64(k), 0), int64(r.Intn(500)))
					case 1:
						f.ReadAt(make([]byte, r.Pick(1, 100, int(iounit))), int64(r.Intn(500)))
					case 2:
						clnt.FStat("shared/d1/d2")
					case 3:
						if d, err := clnt.FOpen("shared", go9p.OREAD); err == nil {
							d.Readdir(0)
							d.Close()
						}
					case 4:
						clnt.Stat(f.Fid)
					case 5:
						if g, err := clnt.FOpen(fmt.Sprintf("shared/e%d", r.Intn(6)), go9p.OREAD); err == nil {
							g.Read(make([]byte, 64))
							g.Close()
						}
					case 6:
						nf := clnt.FidAlloc()
						if _, err := clnt.Walk(clnt.Root, nf, []string{"shared", "d1"}); err == nil {
							clnt.Clunk(nf)
						}
					}
				}
				f.Close()
				if r.Bool() {
					clnt.FRemove(name)
				}
			})
		}
	})
	x.Run()
	u.CountFaults()
}

// c19Churn: connections are opened and dropped (once their own requests have been answered) while others stay busy.
func c19Churn(x *Ctx) {
	w := NewSrvWork(x, false)
	w.Start()
	churn := int(x.C.cfg("churn"))
	rt.Go(rt.SiteSpawn, func() {
		rt.SetName("churner")
		rt.HarnessOnly()
		for k := 0; k < churn; k++ {
			sc := w.sys.AddConn(0, int(x.C.cfg("seg")))
			p := sc.Peer
			if !rawAttach(p, 1024, k%2 == 0, "") {
				return
			}
			p.Call(&Msg{Type: Twalk, Tag: 2, Fid: 0, Newfid: 1, Wname: []string{"a"}})
			p.Call(&Msg{Type: Tstat, Tag: 3, Fid: 1})
			p.Call(&Msg{Type: Tclunk, Tag: 4, Fid: 1})
			// every request of this connection has been answered: drop it
			sc.Clnt.Close()
			for y := 0; y < 5; y++ {
				rt.Yield(rt.SiteActor)
			}
		}
	})
	w.RunPhases()
}
