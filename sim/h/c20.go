package h

// C20 — the message logger keeps the most recent entries in order
// (DESIGN.md §4 C20). Producers and filterers are simulated goroutines; a
// reference ring decides the sequential stratum exactly, an order-graph
// checker the concurrent one.

import (
	"fmt"

	"github.com/rminnich/go9p"
	"github.com/rminnich/go9p/vsim/rt"
)

func init() { register(&Property{ID: "C20", Gen: c20Gen, Exec: c20Exec}) }

func c20Gen(seed uint64, run int, tier string) *Case {
	r := NewRand(seed)
	c := &Case{Cfg: map[string]int64{}}
	genCommon(r, c.Cfg)
	n := r.Pick(1, 2, 3, 5, 16, 17, 64)
	c.Cfg["cap"] = int64(n)
	if run%2 == 0 {
		c.Stratum = "sequential"
		c.Cfg["producers"], c.Cfg["filterers"] = 1, 0
	} else {
		c.Stratum = "concurrent"
		c.Cfg["producers"] = int64(r.Range(1, 4))
		c.Cfg["filterers"] = int64(r.Range(1, 2))
	}
	total := r.Pick(0, 1, n-1, n, n+1, 2*n+1, 3*n+2, 10*n)
	if total < 0 {
		total = 0
	}
	if total > 400 {
		total = 400
	}
	c.Cfg["total"] = int64(total)
	if run%2 == 0 && (run%1000 == 2 || (tier == "thorough" && run%100 == 2)) {
		// more entries than a 16-bit counter holds: 'the N most recent' does not depend on how many came before
		c.Stratum = "sequential-long-run"
		c.Cfg["total"] = int64(r.Pick(65536, 65536+n/2, 65536+n-1, 65538, 131072+n/2, 65536+n+3))
		c.Cfg["maxsteps"] = 4000000
	}
	c.Cfg["palette"] = int64(r.Pick(0, 0, 0, 1, 2)) // which numbers serve as entry types
	c.Cfg["batches"] = int64(r.Range(1, 4))
	c.Cfg["nfilters"] = int64(r.Range(1, 6))
	return c
}

type c20Entry struct {
	id       int
	owner    int
	typ      int
	producer int
	seq      int // per-producer sequence
	inv, ret int // steps of the Log call
}

type c20Result struct {
	owner, typ int // -1 owner = nil
	ids        []int
	inv, ret   int
}

func c20Match(e *c20Entry, owner, typ int) bool {
	return (owner < 0 || e.owner == owner) && (typ == 0 || e.typ == typ)
}

func c20Exec(x *Ctx) {
	c := x.C
	capN := int(c.cfg("cap"))
	lg := go9p.NewLogger(capN)
	nprod := int(c.cfg("producers"))
	nfilt := int(c.cfg("filterers"))
	total := int(c.cfg("total"))
	batches := int(c.cfg("batches"))
	r := NewRand(c.Seed ^ 0x2020)
	// a type is any int: the small ones, numbers at and beyond the width of a machine word's bit positions, negatives
	tmap := [][]int{{0, 1, 2, 3, 4, 5, 6}, {0, 63, 64, 65, 100, 128, 1000}, {0, -1, 1 << 20, 1 << 31, -64, 7, 1<<32 + 1}}[int(c.cfg("palette"))%3]
	var entries []*c20Entry
	var results []*c20Result
	byID := map[int]*c20Entry{}
	var gs []*rt.G
	// two of the owners are distinct objects with equal contents: an owner is who it is, not what it holds
	type peerT struct {
		proto string
		up    bool
	}
	owners := []interface{}{&peerT{"tcp", true}, &peerT{"tcp", true}, 2}
	doFilter := func(owner, typ int) *c20Result {
		res := &c20Result{owner: owner, typ: typ, inv: rt.Step()}
		var o interface{}
		if owner >= 0 {
			o = owners[owner]
		}
		logs := lg.Filter(o, typ)
		res.ret = rt.Step()
		for _, l := range logs {
			if l == nil {
				x.Violate("l1-garbage", "Filter returned a nil entry")
				continue
			}
			id, ok := l.Data.(int)
			if !ok {
				x.Violate("l1-garbage", "Filter returned an entry that was never logged")
				continue
			}
			res.ids = append(res.ids, id)
		}
		results = append(results, res)
		return res
	}
	nextID := 0
	// the sequential stratum alternates batches of Log with exact Filter checks at quiescence;
	// the concurrent stratum lets producers and filterers run freely and ends with a sequential tail
	perBatch := total / maxInt(batches, 1)
	for b := 0; b < batches; b++ {
		cnt := perBatch
		if b == batches-1 {
			cnt = total - perBatch*(batches-1)
		}
		for pi := 0; pi < nprod; pi++ {
			pi := pi
			mine := cnt / nprod
			if pi == 0 {
				mine += cnt % nprod
			}
			var es []*c20Entry
			for k := 0; k < mine; k++ {
				e := &c20Entry{id: nextID, owner: r.Intn(3), typ: tmap[r.Pick(1, 2, 4, 3, 6, 5, 1, 2, 0)], producer: pi, seq: len(es)} // types that share bits are different types
				nextID++
				es = append(es, e)
				byID[e.id] = e
			}
			gs = append(gs, rt.Go(rt.SiteSpawn, func() {
				rt.SetName(fmt.Sprintf("producer%d", pi))
				for _, e := range es {
					e.inv = rt.Step()
					entries = append(entries, e)
					lg.Log(e.id, owners[e.owner], e.typ)
					e.ret = rt.Step()
					rt.Yield(rt.SiteActor)
				}
			}))
		}
		for fi := 0; fi < nfilt; fi++ {
			nf := int(c.cfg("nfilters"))
			fseed := r.U64()
			gs = append(gs, rt.Go(rt.SiteSpawn, func() {
				rt.SetName("filterer")
				fr := NewRand(fseed)
				for k := 0; k < nf; k++ {
					for y := fr.Intn(6); y > 0; y-- {
						rt.Yield(rt.SiteActor)
					}
					doFilter(fr.Pick(-1, -1, 0, 1, 2), tmap[fr.Pick(0, 0, 1, 2, 4, 3, 6)])
				}
			}))
		}
		if !x.Run() {
			return
		}
		for _, g := range gs {
			if !g.Done() {
				x.Violate("l5-blocked", "%s is blocked in a Log or Filter call although the logger goroutine is idle: %s", g.Name, x.S.Describe(g))
				return
			}
		}
		// logging has stopped and the system is quiescent: Filter must now be exact
		filters := [][2]int{{-1, 0}}
		for k := int(c.cfg("nfilters")); k > 0; k-- {
			filters = append(filters, [2]int{r.Pick(-1, 0, 1, 2), tmap[r.Pick(0, 1, 2, 4, 3, 6)]})
		}
		var exact []*c20Result
		g := rt.Go(rt.SiteSpawn, func() {
			rt.SetName("exact-filterer")
			for _, f := range filters {
				exact = append(exact, doFilter(f[0], f[1]))
			}
		})
		if !x.Run() {
			return
		}
		if !g.Done() {
			x.Violate("l5-blocked", "Filter blocks although the logger is idle: %s", x.S.Describe(g))
			return
		}
		if nprod == 1 {
			// single producer: the log order is the program order, the reference ring is exact
			start := len(entries) - capN
			if start < 0 {
				start = 0
			}
			window := entries[start:]
			for _, res := range exact {
				var want []int
				for _, e := range window {
					if c20Match(e, res.owner, res.typ) {
						want = append(want, e.id)
					}
				}
				if fmt.Sprint(want) != fmt.Sprint(res.ids) {
					x.Violate("l4-converged", "capacity %d, %d entries logged, logging stopped: Filter(owner %d, type %d) returned %v, the matching entries among the %d most recent are %v", capN, len(entries), res.owner, res.typ, res.ids, capN, want)
				}
			}
			if len(entries) >= 3*capN {
				x.Probe("ring-wrapped-3+-times")
			}
		} else {
			for _, res := range exact {
				if res.owner < 0 && res.typ == 0 {
					want := len(entries)
					if want > capN {
						want = capN
					}
					if len(res.ids) != want {
						x.Violate("l4-converged", "capacity %d, %d entries logged by %d producers, logging stopped: Filter(all) returned %d entries, want %d", capN, len(entries), nprod, len(res.ids), want)
					}
				}
			}
		}
	}
	if len(entries) > 3000 {
		// the long sequential run: the reference ring above has decided every result exactly; the order graph
		// below is quadratic in the number of entries and has nothing to add for a single producer
		return
	}
	// every result: membership, matching, no duplicates, at most N, order consistent with what can be known
	succ := map[int][]int{} // forced order edges a -> b (a logged before b)
	add := func(a, b int) { succ[a] = append(succ[a], b) }
	lastOf := map[int]*c20Entry{}
	for _, e := range entries {
		if p := lastOf[e.producer]; p != nil {
			add(p.id, e.id)
		}
		lastOf[e.producer] = e
	}
	for _, a := range entries {
		for _, b := range entries {
			if a.ret > 0 && a.ret < b.inv && a.producer != b.producer {
				add(a.id, b.id)
			}
		}
	}
	for _, res := range results {
		seen := map[int]bool{}
		if len(res.ids) > capN {
			x.Violate("l2-too-many", "Filter returned %d entries, the capacity is %d", len(res.ids), capN)
		}
		for i, id := range res.ids {
			e := byID[id]
			if e == nil || e.inv == 0 && e.ret == 0 && !containsEntry(entries, id) {
				x.Violate("l1-garbage", "Filter returned entry %d, which was never logged", id)
				continue
			}
			if !containsEntry(entries, id) || e.inv > res.ret {
				x.Violate("l1-from-the-future", "Filter returned entry %d before it was logged", id)
			}
			if !c20Match(e, res.owner, res.typ) {
				x.Violate("l1-mismatch", "Filter(owner %d, type %d) returned entry %d of owner %d type %d", res.owner, res.typ, id, e.owner, e.typ)
			}
			if seen[id] {
				x.Violate("l2-duplicate", "Filter returned entry %d twice: %v", id, res.ids)
			}
			seen[id] = true
			if i > 0 {
				add(res.ids[i-1], id)
			}
		}
	}
	if cyc := findCycle(succ); cyc != nil {
		x.Violate("l3-order", "no single log order explains the results: per-producer order, real-time order and the order inside Filter results form a cycle through entries %v", cyc)
	} else {
		// no skipping: a matching entry forced between two returned ones must be returned too
		reach := func(a, b int) bool { return reaches(succ, a, b) }
		for _, res := range results {
			in := map[int]bool{}
			for _, id := range res.ids {
				in[id] = true
			}
			if len(res.ids) < 2 {
				continue
			}
			first, last := res.ids[0], res.ids[len(res.ids)-1]
			for _, e := range entries {
				if in[e.id] || !c20Match(e, res.owner, res.typ) {
					continue
				}
				if reach(first, e.id) && reach(e.id, last) {
					x.Violate("l3-skipped", "Filter(owner %d, type %d) returned %v but skipped the matching entry %d, which was logged between %d and %d", res.owner, res.typ, res.ids, e.id, first, last)
					break
				}
			}
		}
	}
	if len(results) > 0 {
		x.Fault("concurrent-filter")
	}
	_ = lg
}

func containsEntry(es []*c20Entry, id int) bool {
	for _, e := range es {
		if e.id == id {
			return true
		}
	}
	return false
}

func reaches(succ map[int][]int, a, b int) bool {
	seen := map[int]bool{a: true}
	st := []int{a}
	for len(st) > 0 {
		n := st[len(st)-1]
		st = st[:len(st)-1]
		for _, m := range succ[n] {
			if m == b {
				return true
			}
			if !seen[m] {
				seen[m] = true
				st = append(st, m)
			}
		}
	}
	return false
}

func findCycle(succ map[int][]int) []int {
	color := map[int]int{}
	var cyc []int
	var visit func(n int, path []int) bool
	visit = func(n int, path []int) bool {
		color[n] = 1
		for _, m := range succ[n] {
			if color[m] == 1 {
				cyc = append(append([]int{}, path...), n, m)
				return true
			}
			if color[m] == 0 && visit(m, append(path, n)) {
				return true
			}
		}
		color[n] = 2
		return false
	}
	keys := make([]int, 0, len(succ))
	for k := range succ {
		keys = append(keys, k)
	}
	sortInts(keys)
	for _, k := range keys {
		if color[k] == 0 && visit(k, nil) {
			if len(cyc) > 8 {
				cyc = cyc[len(cyc)-8:]
			}
			return cyc
		}
	}
	return nil
}

func sortInts(a []int) {
	for i := 1; i < len(a); i++ {
		for j := i; j > 0 && a[j] < a[j-1]; j-- {
			a[j], a[j-1] = a[j-1], a[j]
		}
	}
}
