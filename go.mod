module verif

go 1.26.8
