// Instrumenter (DESIGN.md §3.1): copies the go9p package into dst, inserting
// simulator schedule points around every synchronisation operation.
package main

import (
	"bytes"
	"fmt"
	"go/ast"
	"go/build"
	"go/format"
	"go/importer"
	"go/parser"
	"go/token"
	"go/types"
	"os"
	"path/filepath"
	"sort"
	"strconv"
	"strings"
)

const rtPath = "github.com/rminnich/go9p/vsim/rt"

type site struct {
	ID   int
	Kind string
	Fn   string
	Pos  string
}

type inst struct {
	fset  *token.FileSet
	info  *types.Info
	pkg   *types.Package
	sites []site
	tmp   int
	used  bool // current file uses simrt
	warn  []string
	curFn string
	// channels created by make() in the current function, with the position
	// at which they first become reachable by anything else (escape)
	local map[types.Object]token.Pos
}

func main() {
	if len(os.Args) != 3 {
		fmt.Fprintln(os.Stderr, "usage: instrument <srcdir> <dstdir>")
		os.Exit(2)
	}
	src, dst := os.Args[1], os.Args[2]
	ctx := build.Default
	ctx.CgoEnabled = false
	bp, err := ctx.ImportDir(src, 0)
	if err != nil {
		die(err)
	}
	fset := token.NewFileSet()
	var files []*ast.File
	for _, name := range bp.GoFiles {
		f, err := parser.ParseFile(fset, filepath.Join(src, name), nil, parser.ParseComments)
		if err != nil {
			die(err)
		}
		files = append(files, f)
	}
	info := &types.Info{
		Types:      map[ast.Expr]types.TypeAndValue{},
		Selections: map[*ast.SelectorExpr]*types.Selection{},
		Uses:       map[*ast.Ident]types.Object{},
		Defs:       map[*ast.Ident]types.Object{},
	}
	conf := types.Config{Importer: importer.ForCompiler(fset, "source", nil), Error: func(err error) {}}
	pkg, err := conf.Check(bp.ImportPath, fset, files, info)
	if err != nil {
		fmt.Fprintln(os.Stderr, "typecheck (continuing):", err)
	}
	in := &inst{fset: fset, info: info, pkg: pkg}
	if err := os.MkdirAll(dst, 0o755); err != nil {
		die(err)
	}
	for i, f := range files {
		in.used = false
		for _, d := range f.Decls {
			if fd, ok := d.(*ast.FuncDecl); ok && fd.Body != nil && osSeamFiles[bp.GoFiles[i]] {
				in.curFn = fd.Name.Name
				in.wrapOSCalls(fd.Body)
			}
		}
		for _, d := range f.Decls {
			if fd, ok := d.(*ast.FuncDecl); ok && fd.Body != nil {
				in.curFn = fd.Name.Name
				if fd.Recv != nil && len(fd.Recv.List) == 1 {
					t := fd.Recv.List[0].Type
					if st, ok := t.(*ast.StarExpr); ok {
						t = st.X
					}
					if id, ok := t.(*ast.Ident); ok {
						in.curFn = id.Name + "." + fd.Name.Name
					}
				}
				in.findLocalChans(fd.Body)
				fd.Body.List = in.stmts(fd.Body.List)
			}
		}
		if in.used {
			addImport(f)
		}
		f.Comments = nil // free-floating comments confuse the printer once nodes are synthesised; files were already selected by build constraints
		var buf bytes.Buffer
		if err := format.Node(&buf, fset, f); err != nil {
			die(fmt.Errorf("%s: %v", bp.GoFiles[i], err))
		}
		if err := os.WriteFile(filepath.Join(dst, bp.GoFiles[i]), buf.Bytes(), 0o644); err != nil {
			die(err)
		}
	}
	// site table
	var sb strings.Builder
	sb.WriteString("package go9p\n\nimport simrt \"" + rtPath + "\"\n\nfunc init() {\n\tsimrt.Sites = []simrt.Site{\n")
	for _, s := range in.sites {
		fmt.Fprintf(&sb, "\t\t{%d, %q, %q, %q},\n", s.ID, s.Kind, s.Fn, s.Pos)
	}
	sb.WriteString("\t}\n}\n")
	if err := os.WriteFile(filepath.Join(dst, "zz_sim_sites.go"), []byte(sb.String()), 0o644); err != nil {
		die(err)
	}
	for _, w := range in.warn {
		fmt.Fprintln(os.Stderr, "warning:", w)
	}
	fmt.Fprintf(os.Stderr, "instrumented %d files, %d sites\n", len(files), len(in.sites))
}

// osSeamFiles: the files whose calls into os / syscall / (*os.File) get the OS-fault seam
// (the Unix file server; the rest of the library makes no file system calls on behalf of clients).
var osSeamFiles = map[string]bool{"ufs.go": true}

// wrapOSCalls rewrites, in place, every call  os.F(args) / syscall.F(args) / file.M(args)  whose last
// result is an error into
//
//	func() (r0 T0, ..., err error) { if e := simrt.OSFault(site, "os.F"); e != nil { err = e; return }; return os.F(args) }()
//
// so that the simulator can make the call fail (instead of performing it) with an errno of its choice.
func (in *inst) wrapOSCalls(body *ast.BlockStmt) {
	var targets []*ast.CallExpr
	ast.Inspect(body, func(n ast.Node) bool {
		switch v := n.(type) {
		case *ast.DeferStmt, *ast.GoStmt:
			return false
		case *ast.CallExpr:
			if name := in.osCallName(v); name != "" {
				targets = append(targets, v)
			}
		}
		return true
	})
	for _, c := range targets {
		name := in.osCallName(c)
		tv, ok := in.info.Types[c]
		if !ok {
			continue
		}
		var results []types.Type
		switch t := tv.Type.(type) {
		case *types.Tuple:
			for i := 0; i < t.Len(); i++ {
				results = append(results, t.At(i).Type())
			}
		default:
			results = []types.Type{tv.Type}
		}
		fields := &ast.FieldList{}
		for i, rt := range results {
			nm := "_r" + strconv.Itoa(i)
			if i == len(results)-1 {
				nm = "_err"
			}
			fields.List = append(fields.List, &ast.Field{Names: []*ast.Ident{ast.NewIdent(nm)}, Type: in.typeExpr(rt)})
		}
		orig := &ast.CallExpr{Fun: c.Fun, Args: c.Args, Ellipsis: c.Ellipsis}
		guard := &ast.IfStmt{
			Init: &ast.AssignStmt{Lhs: []ast.Expr{ast.NewIdent("_e")}, Tok: token.DEFINE,
				Rhs: []ast.Expr{rtCall("OSFault", in.site("oscall", c.Pos()), &ast.BasicLit{Kind: token.STRING, Value: strconv.Quote(name)})}},
			Cond: &ast.BinaryExpr{X: ast.NewIdent("_e"), Op: token.NEQ, Y: ast.NewIdent("nil")},
			Body: &ast.BlockStmt{List: []ast.Stmt{
				&ast.AssignStmt{Lhs: []ast.Expr{ast.NewIdent("_err")}, Tok: token.ASSIGN, Rhs: []ast.Expr{ast.NewIdent("_e")}},
				&ast.ReturnStmt{},
			}},
		}
		lit := &ast.FuncLit{Type: &ast.FuncType{Params: &ast.FieldList{}, Results: fields},
			Body: &ast.BlockStmt{List: []ast.Stmt{guard, &ast.ReturnStmt{Results: []ast.Expr{orig}}}}}
		c.Fun, c.Args, c.Ellipsis = lit, nil, token.NoPos
		in.used = true
	}
}

// osCallName returns "os.Lstat", "syscall.Rename", "os.File.ReadAt", ... for calls that get the seam.
func (in *inst) osCallName(c *ast.CallExpr) string {
	sel, ok := c.Fun.(*ast.SelectorExpr)
	if !ok {
		return ""
	}
	tv, ok := in.info.Types[c]
	if !ok {
		return ""
	}
	last := tv.Type
	if t, ok := last.(*types.Tuple); ok {
		if t.Len() == 0 {
			return ""
		}
		last = t.At(t.Len() - 1).Type()
	}
	if last.String() != "error" {
		return ""
	}
	if id, ok := sel.X.(*ast.Ident); ok {
		if pn, ok := in.info.Uses[id].(*types.PkgName); ok {
			if p := pn.Imported().Path(); p == "os" || p == "syscall" {
				return p + "." + sel.Sel.Name
			}
			return ""
		}
	}
	if s := in.info.Selections[sel]; s != nil {
		if fn, ok := s.Obj().(*types.Func); ok && fn.Pkg() != nil && fn.Pkg().Path() == "os" {
			if r := fn.Type().(*types.Signature).Recv(); r != nil && r.Type().String() == "*os.File" {
				return "os.File." + sel.Sel.Name
			}
		}
	}
	return ""
}

func die(err error) { fmt.Fprintln(os.Stderr, "instrument:", err); os.Exit(2) }

func addImport(f *ast.File) {
	spec := &ast.ImportSpec{Name: ast.NewIdent("simrt"), Path: &ast.BasicLit{Kind: token.STRING, Value: strconv.Quote(rtPath)}}
	decl := &ast.GenDecl{Tok: token.IMPORT, Specs: []ast.Spec{spec}}
	f.Decls = append([]ast.Decl{decl}, f.Decls...)
}

func (in *inst) site(kind string, pos token.Pos) ast.Expr {
	p := in.fset.Position(pos)
	id := len(in.sites)
	in.sites = append(in.sites, site{id, kind, in.curFn, fmt.Sprintf("%s:%d", filepath.Base(p.Filename), p.Line)})
	in.used = true
	return &ast.BasicLit{Kind: token.INT, Value: strconv.Itoa(id)}
}

func (in *inst) tmpName(p string) string { in.tmp++; return fmt.Sprintf("_sim%s%d", p, in.tmp) }

func rtCall(name string, args ...ast.Expr) *ast.CallExpr {
	return &ast.CallExpr{Fun: &ast.SelectorExpr{X: ast.NewIdent("simrt"), Sel: ast.NewIdent(name)}, Args: args}
}

func (in *inst) yield(kind string, pos token.Pos) ast.Stmt {
	return &ast.ExprStmt{X: rtCall("Yield", in.site(kind, pos))}
}

// mutexExpr returns &X.<path>.Mutex for a call X.Lock()/X.Unlock() that
// resolves to (*sync.Mutex).Lock/Unlock, or nil.
func (in *inst) mutexExpr(call *ast.CallExpr) (ast.Expr, string) {
	if len(call.Args) != 0 {
		return nil, ""
	}
	sel, ok := call.Fun.(*ast.SelectorExpr)
	if !ok || (sel.Sel.Name != "Lock" && sel.Sel.Name != "Unlock") {
		return nil, ""
	}
	s := in.info.Selections[sel]
	if s == nil {
		return nil, ""
	}
	fn, ok := s.Obj().(*types.Func)
	if !ok || fn.Pkg() == nil || fn.Pkg().Path() != "sync" {
		return nil, ""
	}
	recv := fn.Type().(*types.Signature).Recv().Type().String()
	if recv != "*sync.Mutex" {
		return nil, ""
	}
	// walk the embedding path
	x := sel.X
	t := in.info.Types[sel.X].Type
	idx := s.Index()
	for _, i := range idx[:len(idx)-1] {
		if p, ok := t.Underlying().(*types.Pointer); ok {
			t = p.Elem()
		}
		st := t.Underlying().(*types.Struct)
		fld := st.Field(i)
		x = &ast.SelectorExpr{X: x, Sel: ast.NewIdent(fld.Name())}
		t = fld.Type()
	}
	if _, isPtr := t.Underlying().(*types.Pointer); !isPtr {
		x = &ast.UnaryExpr{Op: token.AND, X: x}
	}
	return x, sel.Sel.Name
}

// findLocalChans records channels made in this function and the first
// position where the variable is used other than as the operand of a
// send or receive: before that point no other goroutine can reach it, so
// operations on it are not schedule points.
func (in *inst) findLocalChans(body *ast.BlockStmt) {
	in.local = map[types.Object]token.Pos{}
	ast.Inspect(body, func(n ast.Node) bool {
		as, ok := n.(*ast.AssignStmt)
		if !ok || as.Tok != token.DEFINE || len(as.Lhs) != 1 || len(as.Rhs) != 1 {
			return true
		}
		call, ok := as.Rhs[0].(*ast.CallExpr)
		if !ok || len(call.Args) == 0 {
			return true
		}
		if f, ok := call.Fun.(*ast.Ident); !ok || f.Name != "make" {
			return true
		}
		if _, ok := call.Args[0].(*ast.ChanType); !ok {
			return true
		}
		if obj := in.info.Defs[as.Lhs[0].(*ast.Ident)]; obj != nil {
			in.local[obj] = token.Pos(1 << 40)
		}
		return true
	})
	if len(in.local) == 0 {
		return
	}
	operand := map[*ast.Ident]bool{}
	ast.Inspect(body, func(n ast.Node) bool {
		switch v := n.(type) {
		case *ast.SendStmt:
			if id, ok := v.Chan.(*ast.Ident); ok {
				operand[id] = true
			}
		case *ast.UnaryExpr:
			if id, ok := v.X.(*ast.Ident); ok && v.Op == token.ARROW {
				operand[id] = true
			}
		}
		return true
	})
	ast.Inspect(body, func(n ast.Node) bool {
		id, ok := n.(*ast.Ident)
		if !ok || operand[id] {
			return true
		}
		if obj := in.info.Uses[id]; obj != nil {
			if p, ok := in.local[obj]; ok && id.Pos() < p {
				in.local[obj] = id.Pos()
			}
		}
		return true
	})
}

// private reports whether every channel operated on in n is still private
// to the current function at that point.
func (in *inst) private(n ast.Node) bool {
	priv := true
	chk := func(e ast.Expr) {
		id, ok := e.(*ast.Ident)
		if !ok {
			priv = false
			return
		}
		p, ok := in.local[in.info.Uses[id]]
		if !ok || id.Pos() > p {
			priv = false
		}
	}
	ast.Inspect(n, func(n ast.Node) bool {
		switch v := n.(type) {
		case *ast.FuncLit:
			return false
		case *ast.SendStmt:
			chk(v.Chan)
		case *ast.UnaryExpr:
			if v.Op == token.ARROW {
				chk(v.X)
			}
		}
		return true
	})
	return priv
}

func hasRecv(n ast.Node) bool {
	found := false
	ast.Inspect(n, func(n ast.Node) bool {
		switch v := n.(type) {
		case *ast.FuncLit:
			return false
		case *ast.UnaryExpr:
			if v.Op == token.ARROW {
				found = true
			}
		}
		return !found
	})
	return found
}

func (in *inst) block(b *ast.BlockStmt) {
	if b != nil {
		b.List = in.stmts(b.List)
	}
}

// funcLits instruments function literals nested in an expression/statement.
func (in *inst) funcLits(n ast.Node) {
	ast.Inspect(n, func(n ast.Node) bool {
		if fl, ok := n.(*ast.FuncLit); ok {
			in.block(fl.Body)
			return false
		}
		return true
	})
}

func (in *inst) stmts(list []ast.Stmt) []ast.Stmt {
	var out []ast.Stmt
	for _, s := range list {
		// an operation of sync/atomic is a point where goroutines may interleave too
		if in.atomicIn(s) {
			in.used = true
			out = append(out, in.yield("atomic", s.Pos()))
			if f, ok := s.(*ast.ForStmt); ok && f.Body != nil {
				f.Body.List = append(f.Body.List, in.yield("atomic", s.Pos()))
			}
		}
		out = append(out, in.stmt(s)...)
	}
	return out
}

// atomicIn reports whether the statement's own expressions (not its nested blocks or function literals) call
// into sync/atomic.
func (in *inst) atomicIn(s ast.Stmt) bool {
	var parts []ast.Node
	switch v := s.(type) {
	case *ast.ExprStmt, *ast.AssignStmt, *ast.DeclStmt, *ast.ReturnStmt, *ast.IncDecStmt, *ast.SendStmt:
		parts = append(parts, v)
	case *ast.IfStmt:
		if v.Init != nil {
			parts = append(parts, v.Init)
		}
		parts = append(parts, v.Cond)
	case *ast.ForStmt:
		for _, n := range []ast.Node{v.Init, v.Cond, v.Post} {
			if n != nil && !isNilNode(n) {
				parts = append(parts, n)
			}
		}
	case *ast.SwitchStmt:
		if v.Init != nil {
			parts = append(parts, v.Init)
		}
		if v.Tag != nil {
			parts = append(parts, v.Tag)
		}
	case *ast.RangeStmt:
		parts = append(parts, v.X)
	}
	found := false
	for _, p := range parts {
		ast.Inspect(p, func(n ast.Node) bool {
			switch c := n.(type) {
			case *ast.FuncLit:
				return false
			case *ast.CallExpr:
				var obj types.Object
				switch f := c.Fun.(type) {
				case *ast.SelectorExpr:
					if sel := in.info.Selections[f]; sel != nil {
						obj = sel.Obj()
					} else {
						obj = in.info.Uses[f.Sel]
					}
				case *ast.Ident:
					obj = in.info.Uses[f]
				}
				if fn, ok := obj.(*types.Func); ok && fn.Pkg() != nil && fn.Pkg().Path() == "sync/atomic" {
					found = true
				}
			}
			return !found
		})
	}
	return found
}

func isNilNode(n ast.Node) bool {
	switch v := n.(type) {
	case ast.Stmt:
		return v == nil
	case ast.Expr:
		return v == nil
	}
	return false
}

func (in *inst) stmt(s ast.Stmt) []ast.Stmt {
	switch v := s.(type) {
	case *ast.BlockStmt:
		in.block(v)
	case *ast.IfStmt:
		if v.Init != nil && hasRecv(v.Init) {
			in.warn = append(in.warn, "receive in if-init at "+in.fset.Position(v.Pos()).String())
		}
		in.block(v.Body)
		if v.Else != nil {
			r := in.stmt(v.Else)
			if len(r) == 1 {
				v.Else = r[0]
			} else {
				v.Else = &ast.BlockStmt{List: r}
			}
		}
	case *ast.ForStmt:
		in.block(v.Body)
	case *ast.RangeStmt:
		in.block(v.Body)
		if r := in.mapRange(v); r != nil {
			return r
		}
	case *ast.SwitchStmt:
		for _, c := range v.Body.List {
			cc := c.(*ast.CaseClause)
			cc.Body = in.stmts(cc.Body)
		}
	case *ast.TypeSwitchStmt:
		for _, c := range v.Body.List {
			cc := c.(*ast.CaseClause)
			cc.Body = in.stmts(cc.Body)
		}
	case *ast.LabeledStmt:
		r := in.stmt(v.Stmt)
		v.Stmt = r[0]
		return append([]ast.Stmt{v}, r[1:]...)
	case *ast.SelectStmt:
		return in.selectStmt(v)
	case *ast.GoStmt:
		return in.goStmt(v)
	case *ast.DeferStmt:
		if m, name := in.mutexExpr(v.Call); m != nil {
			v.Call = rtCall(name, m)
			in.used = true
			return []ast.Stmt{v}
		}
		in.funcLits(v.Call)
	case *ast.SendStmt:
		if in.private(v) {
			return []ast.Stmt{s}
		}
		return []ast.Stmt{in.yield("send", v.Pos()), v, in.yield("sent", v.Pos())}
	case *ast.ExprStmt:
		if call, ok := v.X.(*ast.CallExpr); ok {
			if m, name := in.mutexExpr(call); m != nil {
				in.used = true
				if name == "Lock" {
					return []ast.Stmt{&ast.ExprStmt{X: rtCall("Lock", in.site("lock", v.Pos()), m)}}
				}
				return []ast.Stmt{&ast.ExprStmt{X: rtCall("Unlock", m)}}
			}
		}
		in.funcLits(v)
		if hasRecv(v) {
			return []ast.Stmt{in.yield("recv", v.Pos()), v, in.yield("recvd", v.Pos())}
		}
	case *ast.AssignStmt:
		in.funcLits(v)
		if hasRecv(v) {
			return []ast.Stmt{in.yield("recv", v.Pos()), v, in.yield("recvd", v.Pos())}
		}
	case *ast.DeclStmt:
		in.funcLits(v)
		if hasRecv(v) {
			return []ast.Stmt{in.yield("recv", v.Pos()), v, in.yield("recvd", v.Pos())}
		}
	case *ast.ReturnStmt:
		in.funcLits(v)
		if hasRecv(v) {
			if len(v.Results) == 1 {
				if u, ok := v.Results[0].(*ast.UnaryExpr); ok && u.Op == token.ARROW {
					t := ast.NewIdent(in.tmpName("v"))
					as := &ast.AssignStmt{Lhs: []ast.Expr{t}, Tok: token.DEFINE, Rhs: []ast.Expr{u}}
					v.Results[0] = t
					return []ast.Stmt{in.yield("recv", v.Pos()), as, in.yield("recvd", v.Pos()), v}
				}
			}
			in.warn = append(in.warn, "unhandled receive in return at "+in.fset.Position(v.Pos()).String())
			return []ast.Stmt{in.yield("recv", v.Pos()), v}
		}
	}
	return []ast.Stmt{s}
}

func (in *inst) goStmt(g *ast.GoStmt) []ast.Stmt {
	in.funcLits(g.Call)
	var pre []ast.Stmt
	call := g.Call
	// evaluate receiver and arguments now, as the go statement does
	if sel, ok := call.Fun.(*ast.SelectorExpr); ok {
		if _, isPkg := in.info.Uses[identOf(sel.X)].(*types.PkgName); !isPkg {
			if tv, ok := in.info.Types[sel.X]; ok {
				if _, isPtr := tv.Type.Underlying().(*types.Pointer); isPtr {
					t := ast.NewIdent(in.tmpName("r"))
					pre = append(pre, &ast.AssignStmt{Lhs: []ast.Expr{t}, Tok: token.DEFINE, Rhs: []ast.Expr{sel.X}})
					call = &ast.CallExpr{Fun: &ast.SelectorExpr{X: t, Sel: sel.Sel}, Args: call.Args, Ellipsis: call.Ellipsis}
				}
			}
		}
	}
	args := make([]ast.Expr, len(call.Args))
	for i, a := range call.Args {
		t := ast.NewIdent(in.tmpName("a"))
		pre = append(pre, &ast.AssignStmt{Lhs: []ast.Expr{t}, Tok: token.DEFINE, Rhs: []ast.Expr{a}})
		args[i] = t
	}
	call = &ast.CallExpr{Fun: call.Fun, Args: args, Ellipsis: call.Ellipsis}
	fl := &ast.FuncLit{Type: &ast.FuncType{Params: &ast.FieldList{}}, Body: &ast.BlockStmt{List: []ast.Stmt{&ast.ExprStmt{X: call}}}}
	pre = append(pre, &ast.ExprStmt{X: rtCall("Go", in.site("go", g.Pos()), fl)})
	return []ast.Stmt{&ast.BlockStmt{List: pre}}
}

func identOf(e ast.Expr) *ast.Ident {
	id, _ := e.(*ast.Ident)
	return id
}

func (in *inst) typeExpr(t types.Type) ast.Expr {
	s := types.TypeString(t, func(p *types.Package) string {
		if p == in.pkg {
			return ""
		}
		return p.Name()
	})
	e, err := parser.ParseExpr(s)
	if err != nil {
		die(fmt.Errorf("type %s: %v", s, err))
	}
	return e
}

// selectStmt makes the choice among simultaneously ready cases a simulator
// decision: cases are polled in an order drawn from the run's PRNG and only
// if none is ready does the goroutine block in the original select.
func (in *inst) selectStmt(s *ast.SelectStmt) []ast.Stmt {
	type cs struct {
		comm  ast.Stmt // channel operation with temps substituted
		bind  []ast.Stmt
		decls []ast.Stmt
		body  []ast.Stmt
	}
	var cases []cs
	var deflt *ast.CommClause
	for _, c := range s.Body.List {
		cc := c.(*ast.CommClause)
		cc.Body = in.stmts(cc.Body)
		if cc.Comm == nil {
			deflt = cc
			continue
		}
		k := cs{comm: cc.Comm, body: cc.Body}
		if as, ok := cc.Comm.(*ast.AssignStmt); ok && as.Tok == token.DEFINE {
			// case x := <-ch  /  case x, ok := <-ch
			rhs := as.Rhs[0].(*ast.UnaryExpr)
			cht := in.info.Types[rhs.X].Type.Underlying().(*types.Chan)
			var lhs []ast.Expr
			for i, l := range as.Lhs {
				t := ast.NewIdent(in.tmpName("c"))
				var te ast.Expr
				if i == 0 {
					te = in.typeExpr(cht.Elem())
				} else {
					te = ast.NewIdent("bool")
				}
				k.decls = append(k.decls, &ast.DeclStmt{Decl: &ast.GenDecl{Tok: token.VAR, Specs: []ast.Spec{&ast.ValueSpec{Names: []*ast.Ident{t}, Type: te}}}})
				lhs = append(lhs, t)
				if l.(*ast.Ident).Name != "_" {
					k.bind = append(k.bind, &ast.AssignStmt{Lhs: []ast.Expr{l}, Tok: token.DEFINE, Rhs: []ast.Expr{t}},
						&ast.AssignStmt{Lhs: []ast.Expr{ast.NewIdent("_")}, Tok: token.ASSIGN, Rhs: []ast.Expr{l}})
				}
			}
			k.comm = &ast.AssignStmt{Lhs: lhs, Tok: token.ASSIGN, Rhs: as.Rhs}
		}
		cases = append(cases, k)
	}
	pos := s.Pos()
	sel := ast.NewIdent(in.tmpName("sel"))
	setSel := func(i int) ast.Stmt {
		return &ast.AssignStmt{Lhs: []ast.Expr{sel}, Tok: token.ASSIGN, Rhs: []ast.Expr{&ast.BasicLit{Kind: token.INT, Value: strconv.Itoa(i)}}}
	}
	var out []ast.Stmt
	out = append(out, in.yield("select", pos))
	out = append(out, &ast.AssignStmt{Lhs: []ast.Expr{sel}, Tok: token.DEFINE, Rhs: []ast.Expr{&ast.BasicLit{Kind: token.INT, Value: "-1"}}})
	for _, k := range cases {
		out = append(out, k.decls...)
	}
	// polling loop
	iv := ast.NewIdent(in.tmpName("i"))
	var pollCases []ast.Stmt
	for i, k := range cases {
		poll := &ast.SelectStmt{Body: &ast.BlockStmt{List: []ast.Stmt{
			&ast.CommClause{Comm: k.comm, Body: []ast.Stmt{setSel(i)}},
			&ast.CommClause{},
		}}}
		pollCases = append(pollCases, &ast.CaseClause{List: []ast.Expr{&ast.BasicLit{Kind: token.INT, Value: strconv.Itoa(i)}}, Body: []ast.Stmt{poll}})
	}
	loop := &ast.RangeStmt{Key: ast.NewIdent("_"), Value: iv, Tok: token.DEFINE,
		X: rtCall("SelectOrder", in.site("selorder", pos), &ast.BasicLit{Kind: token.INT, Value: strconv.Itoa(len(cases))}),
		Body: &ast.BlockStmt{List: []ast.Stmt{
			&ast.SwitchStmt{Tag: iv, Body: &ast.BlockStmt{List: pollCases}},
			&ast.IfStmt{Cond: &ast.BinaryExpr{X: sel, Op: token.GEQ, Y: &ast.BasicLit{Kind: token.INT, Value: "0"}}, Body: &ast.BlockStmt{List: []ast.Stmt{&ast.BranchStmt{Tok: token.BREAK}}}},
		}}}
	out = append(out, loop)
	if deflt == nil {
		var blk []ast.Stmt
		for i, k := range cases {
			blk = append(blk, &ast.CommClause{Comm: k.comm, Body: []ast.Stmt{setSel(i)}})
		}
		out = append(out, &ast.IfStmt{Cond: &ast.BinaryExpr{X: sel, Op: token.LSS, Y: &ast.BasicLit{Kind: token.INT, Value: "0"}},
			Body: &ast.BlockStmt{List: []ast.Stmt{&ast.SelectStmt{Body: &ast.BlockStmt{List: blk}}}}})
		out = append(out, in.yield("selected", pos))
	}
	var sw []ast.Stmt
	for i, k := range cases {
		body := append(append([]ast.Stmt{}, k.bind...), k.body...)
		sw = append(sw, &ast.CaseClause{List: []ast.Expr{&ast.BasicLit{Kind: token.INT, Value: strconv.Itoa(i)}}, Body: body})
	}
	if deflt != nil {
		sw = append(sw, &ast.CaseClause{Body: deflt.Body})
	}
	out = append(out, &ast.SwitchStmt{Tag: sel, Body: &ast.BlockStmt{List: sw}})
	return []ast.Stmt{&ast.BlockStmt{List: out}}
}

// mapRange makes map iteration order a simulator decision.
func (in *inst) mapRange(r *ast.RangeStmt) []ast.Stmt {
	tv, ok := in.info.Types[r.X]
	if !ok {
		return nil
	}
	m, ok := tv.Type.Underlying().(*types.Map)
	if !ok {
		return nil
	}
	b, ok := m.Key().Underlying().(*types.Basic)
	if !ok || b.Info()&(types.IsInteger|types.IsString) == 0 {
		in.warn = append(in.warn, "map range with unordered key left alone at "+in.fset.Position(r.Pos()).String())
		return nil
	}
	if r.Tok != token.DEFINE {
		in.warn = append(in.warn, "map range with = left alone at "+in.fset.Position(r.Pos()).String())
		return nil
	}
	mv := ast.NewIdent(in.tmpName("m"))
	kv := ast.NewIdent(in.tmpName("k"))
	var pre []ast.Stmt
	keyUsed := r.Key != nil && r.Key.(*ast.Ident).Name != "_"
	valUsed := r.Value != nil && r.Value.(*ast.Ident).Name != "_"
	okv := ast.NewIdent(in.tmpName("ok"))
	var valLhs ast.Expr = ast.NewIdent("_")
	if valUsed {
		valLhs = r.Value
	}
	pre = append(pre, &ast.AssignStmt{Lhs: []ast.Expr{valLhs, okv}, Tok: token.DEFINE, Rhs: []ast.Expr{&ast.IndexExpr{X: mv, Index: kv}}})
	pre = append(pre, &ast.IfStmt{Cond: &ast.UnaryExpr{Op: token.NOT, X: okv}, Body: &ast.BlockStmt{List: []ast.Stmt{&ast.BranchStmt{Tok: token.CONTINUE}}}})
	if keyUsed {
		pre = append(pre, &ast.AssignStmt{Lhs: []ast.Expr{r.Key}, Tok: token.DEFINE, Rhs: []ast.Expr{kv}},
			&ast.AssignStmt{Lhs: []ast.Expr{ast.NewIdent("_")}, Tok: token.ASSIGN, Rhs: []ast.Expr{r.Key}})
	}
	nr := &ast.RangeStmt{Key: ast.NewIdent("_"), Value: kv, Tok: token.DEFINE,
		X:    rtCall("MapOrder", in.site("maporder", r.Pos()), mv),
		Body: &ast.BlockStmt{List: append(pre, r.Body.List...)}}
	return []ast.Stmt{&ast.BlockStmt{List: []ast.Stmt{
		&ast.AssignStmt{Lhs: []ast.Expr{mv}, Tok: token.DEFINE, Rhs: []ast.Expr{r.X}},
		nr,
	}}}
}

var _ = sort.Ints
