package main

// propCfg is the per-property budget and evidence description.
type propCfg struct {
	ID           string
	Race         bool
	QuickRuns    int
	QuickSecs    int
	ThoroughRuns int
	ThoroughSecs int
	Chunk        int
	Level        string
	RuleNote     string
	Assumptions  []string
	Real         []string
	Stub         []string
	ProbeNames   []string
	WatchdogSecs int // a run may take this long without progress (default 120)
}

var commonAssumptions = []string{
	"interleavings are explored at the granularity of synchronisation operations (mutex, channel, select, go, sync/atomic calls, transport read/write, and in Ufs every os / syscall call); finer-grained unsynchronised interleavings are covered only by the race-detector build of C19",
	"the Go runtime, standard library and (for Ufs) the host file system run uninstrumented and are trusted",
	"the library is compiled with go1.26.8 (needed for testing/synctest) instead of the go1.23 its go.mod names",
	"seeded sampling, not enumeration: a clean batch is evidence, not proof",
}

var propTable = map[string]*propCfg{}

func reg(p *propCfg) {
	if p.Level == "" {
		p.Level = "exploration"
	}
	p.Assumptions = append(append([]string{}, commonAssumptions...), p.Assumptions...)
	propTable[p.ID] = p
}

func init() {
	reg(&propCfg{ID: "C10", QuickRuns: 24000, QuickSecs: 40, ThoroughRuns: 400000, ThoroughSecs: 780, Chunk: 50,
		Level:    "fault_enumeration",
		RuleNote: "C10 strata: 'enum' = fixed 3-caller session with the server->client stream cut (EOF / reset) after an enumerated byte offset 0..600 (stride 7 so that any prefix of runs spreads over the whole session), schedules sampled; 'random' = 1..8 callers with a drawn fault (cut-eof, cut-reset, write-err, Unmount at a drawn step, unparseable / undersize / oversize frame, reply to unknown tag, peer close, stalled peer that later resets), replies withheld with drawn probability; 'control' = no fault, every call must succeed. Fault kind 'stall-then-cut': the peer stops reading so that the client's writer blocks on a bounded transport, then only the server-to-client stream ends. Garbled frame sizes are relative to the msize the peer negotiated; one garble variant is an Rwalk announcing 5042 (10083) qids in 10 (3) bytes.",
		Real:     []string{"go9p client library (Clnt, Rpc/Rpcnb, recv/send goroutines, pools, Logger) — instrumented copy of /repo", "Go runtime, channels, mutexes"},
		Stub:     []string{"9P server: scripted peer with an independent codec", "transport: simulated net.Conn (segmentation, back-pressure, cuts, resets, write errors)"},
		ProbeNames: []string{"fault-with-2+-calls-failing", "2+-outstanding-at-server"}})
}

var srvReal = []string{"go9p server framework (Srv, Conn recv/send goroutines, request workers, fid table, flush/tag queues, reply pools, Logger) — instrumented copy of /repo", "Go runtime, channels, mutexes"}
var srvStub = []string{"file-server implementation: ScriptFS (scripted SrvReqOps/ConnOps/SrvFidOps/FlushOp/AuthOps with invocation log)", "9P clients: raw peers with an independent codec", "transport: simulated net.Conn (segmentation, coalescing, back-pressure, cuts)"}

func init() {
	reg(&propCfg{ID: "C03", QuickRuns: 12000, QuickSecs: 40, ThoroughRuns: 300000, ThoroughSecs: 780, Chunk: 50,
		RuleNote:   "C03: 1..3 connections, per connection 1..16 (thorough 1..64) pipelined requests of 9 types on 1..64 tags that are reused as soon as a reply arrives; per request the script answers now / parked until released / after returning / from another goroutine / with an Rerror; stratum 'double-answer' also answers twice with different content. Held requests are released one per phase in scheduler-chosen order. Every 16th run is the stratum 'tversion-mid-session': 1..16 Tstat requests (a drawn share parked in the implementation) with a Tversion behind them in the same or the next segment; once the server is idle again the same tags are used for new requests, each of which must get exactly one Rstat. The cancelled-neighbours stratum issues one to three Tflush per cancelled request. Every 16th run (index 5) is the stratum 'clunk-and-use-pipelined': a Tclunk or Tremove of a fid written together with 1..3 further requests naming the same fid; every one gets exactly one reply.",
		Real:       srvReal, Stub: srvStub,
		ProbeNames: []string{"multi-message-segment", "tag-reused-after-reply", "3+-held-simultaneously", "release-order-differs-from-arrival", "completion-order-differs-from-arrival", "8+-requests-held-on-a-connection"}})
}

func init() {
	reg(&propCfg{ID: "C07", QuickRuns: 12000, QuickSecs: 40, ThoroughRuns: 300000, ThoroughSecs: 780, Chunk: 50,
		RuleNote:   "C07: per connection 1..3 (thorough 1..6) flush episodes: a target request of any of 9 types (answered now / parked / after returning / from another goroutine / never) optionally queued behind a same-tag request, 1..3 Tflush of it placed in the same transport write, unsynchronised, once the target is parked in the implementation, or after its reply arrived; flush of a flush; the old tag is reused the moment Rflush (or the reply) arrives; with and without FlushOp (ignore / req.Flush() / answer the target). After the run, probes check that cancelled requests left no fid state.",
		Real:       srvReal, Stub: srvStub,
		ProbeNames: []string{"request-cancelled-by-flush", "cancelled-before-implementation", "cancelled-after-implementation-started", "f4-probe-unknown", "f4-probe-valid", "multi-message-segment"}})
}

func init() {
	reg(&propCfg{ID: "C08", QuickRuns: 12000, QuickSecs: 40, ThoroughRuns: 300000, ThoroughSecs: 780, Chunk: 50,
		RuleNote:   "C08: 1..3 connections with 2..12 requests each, a drawn subset of up to 3 (thorough 6) parked inside the implementation (in the callback or answering later from another goroutine); at every quiescence (before any release, after each release in scheduler-chosen order) every other written request must have its reply, and Tstat requests issued while the subset is parked must be answered; stratum 'shared-tag-groups' adds groups of 2..8 requests issued under one tag without waiting, checked for one-at-a-time execution and reply order. Every 10th run is the stratum 'auth-fid-blocked': server with AuthOps, one Tread or Twrite on an authentication fid parked inside AuthRead / AuthWrite; a Twrite and a Tread on the same afid, a Tattach naming it, Tstat / Twalk on other fids and requests on a second connection must all be answered meanwhile. Every 10th run (index 4) is the stratum 'fid-destroy-blocked': the FidDestroy callback of a Tclunk is parked; Tstat, Twalk, Tclunk, Tattach on the connection and requests on a second connection must be answered meanwhile. Runs 2 and 12 of every 20: 'newfid-in-flight' (a Twalk to a new fid parked; a Tstat naming that new fid is sent and not judged; Tstat / Twalk on other fids and requests on a second connection must be answered) and 'flushop-blocked' (a Tstat parked, then the FlushOp.Flush call of the Tflush naming it parked as well; other tags must be answered).",
		Real:       srvReal, Stub: srvStub,
		ProbeNames: []string{"quiescence-with-requests-parked", "late-request-answered-while-others-parked", "shared-tag-group-of-3+", "group-member-parked-with-successors", "3+-held-simultaneously", "release-order-differs-from-arrival"}})
}

func init() {
	reg(&propCfg{ID: "C11", QuickRuns: 12000, QuickSecs: 40, ThoroughRuns: 300000, ThoroughSecs: 780, Chunk: 50,
		RuleNote:   "C11: a victim and a bystander connection run C03-style pipelined histories (fids attached, walked, opened, created, clunked, removed; up to 4 victim requests parked in the implementation); the victim's client end is closed, reset, or closed in the middle of a frame at a drawn step / at the first quiescence with requests parked / when idle; parked requests are released afterwards in scheduler-chosen order; then the bystander and a fresh connection are probed. A quarter of the runs cancel parked victim requests through FlushOp before the cut; cut mode 'half-close': the victim stops reading after the set-up (24-byte transport, the server's writer blocks) and then ends only its sending direction. Every 12th run is the stratum 'tversion-then-disconnect': 1..8 requests (a drawn share parked) with a Tversion behind them, then the victim leaves; ConnClosed once, every fid shown destroyed exactly once, no goroutine left. The Ufs stratum reads the directory from offset 0 three times through one fid. The 'tversion-then-disconnect' stratum starts with a Twalk to a new fid parked in the implementation and a Tstat naming that new fid; the Ufs stratum ends with a Topen and a Tversion written together. A quarter of the parked victim requests have a second request queued under the same tag when the connection goes.",
		Real:       srvReal, Stub: srvStub,
		ProbeNames: []string{"cut-with-requests-parked", "3+-held-simultaneously", "release-order-differs-from-arrival"}})
}

func init() {
	reg(&propCfg{ID: "C13", QuickRuns: 3000, QuickSecs: 40, ThoroughRuns: 200000, ThoroughSecs: 780, Chunk: 40,
		Level:      "exploration",
		RuleNote:   "C13 server strata: a session of 40..120 (thorough ..400) messages mixing 9/11-byte messages, Twrite up to msize-1 and Twstat of exactly msize bytes, msize 96..4096 so the 8 x msize receive buffer wraps many times, delivered by policy (1 byte per read, 1..3 bytes, random, everything, mixed), written in one piece, or with exactly one split point enumerated by run index (stride 13); some requests parked so that later bytes arrive while their payload is still referenced; 'server-fifo' issues the whole session under one tag (execution and reply order checked), 'server-concurrent' under distinct tags. Expected invocations and replies are a function of the stream. Stratum 'client' feeds the library client's receive loop a scripted reply stream (reads up to msize-24, stats) under the same policies. Every 8th run is the stratum 'server-handshake': the byte stream starts with the Tversion itself (plain or .u, msize above or below the server's), followed without waiting by 1..6 requests whose wire format depends on the dialect (Tattach, Tauth, Tcreate, Twstat, Tstat); delivered whole or with one enumerated split point, every message must get the reply it gets when delivered alone. Rule s6-held-up (distinct-tag sessions): at every quiescence with requests parked in the implementation, each message that is not parked has its reply. Handshake streams have 1..6 or 30..90 messages and client msize 64..8192.",
		Real:       append(append([]string{}, srvReal...), "go9p client receive loop (client stratum)"), Stub: srvStub,
		ProbeNames: []string{"message-of-exactly-msize", "session-larger-than-receive-buffer", "split-inside-first-size-prefix"}})
}

func init() {
	reg(&propCfg{ID: "C12", QuickRuns: 2000, QuickSecs: 40, ThoroughRuns: 200000, ThoroughSecs: 780, Chunk: 50,
		RuleNote:   "C12 strata by run index: 'grid' enumerates server msize {default,24,25,64,300,8192,1 MiB+24} x client msize {0,23,24,25,server-1,server,server+1,2^32-1,200,4096} x server dialect x version string {9P2000,9P2000.u,9P2000.L,'',unknown} (700 cells, each revisited under new schedules) and then measures every reply kind on the wire with the script producing Rstat / Rerror at msize-1, msize, msize+1, 2*msize, reads up to msize-24 and a 16-element walk; 'bad-frame' announces sizes 0..6, msize+1, 8*msize+1, 2^31, 2^32-1 with and without a partial body; 'client' runs Connect against scripted Rversion (msize <,=,> the client's, five version strings); 'renegotiate' sends a second Tversion with a smaller msize after the reply-buffer pool was filled, optionally with requests parked. In 'grid' cells whose Tversion is refused (msize < 24) a proper Tversion follows on the same connection and must be negotiated and served as on a fresh one. The reads parked across the second Tversion ask for up to 3000 bytes (their replies would exceed the new msize). The renegotiation stratum ends with a third Tversion asking for more again: whatever msize it is answered with must then be honoured (frames up to it accepted, replies never beyond it).",
		Real:       append(append([]string{}, srvReal...), "go9p client Connect/Attach (client stratum)"), Stub: srvStub,
		ProbeNames: []string{"msize-too-small-refused", "rstat-sent", "reply-refused-for-size", "rerror-full-text-sent", "rerror-shortened-or-replaced", "reply-buffer-older-than-negotiation", "renegotiation-with-requests-outstanding"}})
}

var clntReal = []string{"go9p client library (Clnt, Rpc/Rpcnb, recv/send goroutines, tag and request pools, Tag interface, Logger) — instrumented copy of /repo", "Go runtime, channels, mutexes"}
var clntStub = []string{"9P server: scripted peer with an independent codec, answering in scheduler-chosen order", "transport: simulated net.Conn (segmentation, back-pressure)"}

func init() {
	reg(&propCfg{ID: "C09", QuickRuns: 2000, QuickSecs: 40, ThoroughRuns: 200000, ThoroughSecs: 780, Chunk: 25, WatchdogSecs: 900,
		RuleNote:   "C09: stratum 'concurrent': 1..16 (thorough ..64) caller goroutines with 2..8 calls each (Read, Write, Stat, Walk, Open, Clunk, reads answered with Rerror text+number, reads answered with a reply of the wrong type, pipelined Tag-interface reads sharing a tag); the scripted server withholds replies with drawn probability and releases them one per phase in scheduler-chosen order, replies segmented by policy; reply content is a function of the request. Stratum 'long-run' (every 50th run): 10 000 (thorough 70 000 > 65 535) consecutive calls over one connection. Stratum 'long-run-wide' (quick: one run, thorough: every 800th): 100 000 calls, 64 at a time in flight through ReqAlloc/Rpcnb/ReqFree, so that 48 of every 64 request slots overflow the client's 16-slot cache and their tags pass through the tag pool (more than 65 535 pool round trips). Callers also use the path helpers FStat / FOpen / FWalk, with names the scripted server refuses (Rerror) or walks only partly; pipelined Tag reads hand their completions to a consumer channel of capacity n, 0 or 1 and must complete in issue order (c4-tag-order). Op 'rpcnb': two non-blocking requests (ReqAlloc, caller-owned completion channel, Rpcnb, ReqFree), the second answered normally, with Rerror or with the wrong reply type, the first freed while the second is outstanding. A share of the pipelined Tag reads is refused or answered with the wrong type and must complete with an error. Pipelines under one Tag may start with a Tstat before the Treads (several request kinds under one tag complete in issue order). Stratum 'long-run-errors' (quick: run 350; thorough: every 800th): 70 000 consecutive calls answered with Rerror. After each failing read a caller checks that the error its previous failing call returned still reads the same.",
		Real:       clntReal, Stub: clntStub,
		ProbeNames: []string{"8+-calls-outstanding", "32+-calls-outstanding", "replies-delivered-out-of-order", "tag-value-reused-after-free", "5+-replies-withheld"}})
}

func init() {
	note := "C04/C05 share one harness: histories of 10..40 (thorough ..200) requests over fid numbers {0..5,7,NOFID,NOFID-1} on 1..2 connections using the same numbers, all message types incl. walks that are full, partial, failing, zero-name, in place or onto a used newfid, attach with/without afid, open modes incl. OTRUNC/ORCLOSE, create perms incl. DMDIR and the special-file bits, read/write counts at 0, 1, msize-25, msize-24, msize-23, 2^31, 2^32-24, 2^32-11, 2^32-1, both dialects, with and without AuthOps; the generator runs the reference model forward to keep histories in interesting states. Requests are issued one at a time (the next the moment the previous reply is readable, while the previous worker may still be running); every reply, every implementation call (operation, fid object identity, user, arguments) and every FidDestroy is compared with the reference fid-table model, then every fid number is probed."
	reg(&propCfg{ID: "C04", QuickRuns: 10000, QuickSecs: 40, ThoroughRuns: 200000, ThoroughSecs: 780, Chunk: 50, RuleNote: note + " C04 evaluates rules a*: validity, refusal texts, forwarding of requests naming invalid fids, user binding, FidDestroy exactly once and not after the invalidating reply, final probes. Tcreate perm words include DMAUTH, DMAPPEND, DMEXCL and DMTMP. 40 % of the disconnect epilogues send a Tversion before leaving. The server offers msize, 2 x msize or 64 KiB while the client asks for msize. 8 % of the forwarded requests are cancelled while the implementation holds them (Tflush, FlushOp calling req.Flush()): no reply, model restored, history goes on. 30 % of the forwarded Twrites are parked in the implementation while a filler request arrives (arguments and payload must stay intact). 60 % of C04 histories end with an epilogue: on some connections a parked request is cancelled by Tflush (FlushOp), then the client leaves, and every fid object ever shown to the implementation must have been reported destroyed exactly once. Every 10th C04 run is the stratum 'ufs-fid-table': 10..40 (thorough ..150) requests of all kinds over six fid numbers against the real Ufs (including hard-link creates that name a source fid), validity model driven by the replies, Tstat probes at the end. Every 5th run of C04 is the stratum 'concurrent-batch': after a prologue, 2..8 (thorough ..30) rounds each send 2..4 requests (Tattach, Twalk to a new or the same fid with 0/1 names, Tclunk, Tremove, Tstat) that mostly meet on one of four fid numbers, in one segment or back to back, the implementation holding a drawn share of them until released in drawn order; the replies, the implementation calls per request and the validity of every number afterwards (probed with Tstat) must be explained by some order of the batch applied to the fid-table model (all orders tried; a request overlapping an invalidation or an unanswered bind of its fid may go either way), and at the end every fid object shown to the implementation is reported destroyed exactly once unless still valid.",
		Real: srvReal, Stub: srvStub, ProbeNames: []string{"refused-before-forward", "fid-invalidated", "forwarded-walk", "forwarded-attach"}})
	reg(&propCfg{ID: "C05", QuickRuns: 8000, QuickSecs: 40, ThoroughRuns: 200000, ThoroughSecs: 780, Chunk: 50, RuleNote: note + " C05 evaluates rules b*: refusal before forwarding for every protocol rule, forwarded exactly once with the fid object, user and arguments named, reply equal to what the implementation produced, authentication gate.",
		Real: srvReal, Stub: srvStub, ProbeNames: []string{"refused-before-forward", "forwarded-read", "forwarded-write", "forwarded-create", "forwarded-open"}})
}

var ufsReal = []string{"go9p Ufs (Unix file server) on a per-run scratch tree with real os/syscall calls — instrumented copy of /repo", "go9p server framework", "go9p client library (where the workload uses it)", "host file system, Go runtime"}
var ufsStub = []string{"transport: simulated net.Conn (segmentation by policy)", "raw 9P peers with an independent codec (where the workload needs exact requests)"}

func init() {
	reg(&propCfg{ID: "C14", QuickRuns: 3000, QuickSecs: 40, ThoroughRuns: 60000, ThoroughSecs: 780, Chunk: 20,
		RuleNote:   "C14: 1..4 (thorough ..6) caller goroutines, each with 1..3 files of length 0, 1, iounit-1, iounit, iounit+1, 2*iounit+-1, 3*iounit+7 or random up to 5 iounits (seeded content), iounit 128..65512 further limited by the server's msize, both dialects; 2..8 operations per file drawn from Clnt.Read/Write, File.Read/Write/ReadAt/WriteAt/Readn/Written and a full sequential read, offsets at 0, EOF, EOF+1, beyond, iounit multiples -1, counts 0, 1, iounit-1..iounit+1, 2 and 3 iounits; every result is compared with a byte-slice model and, after every write, the model with os.ReadFile. Every 5th run injects OS errors into Ufs (10-80 per mille, at most 5): a call running while an error fired may fail, but what it reports as written must be in the file and nothing else may change. Read offsets include 2^32, 2^32+1, 2^40. Further opens of a file use OREAD, ORDWR, OWRITE|OTRUNC or ORDWR|OTRUNC. Op 'tagread': three consecutive chunks read through the pipelined Tag interface, all in flight.",
		Real:       ufsReal, Stub: ufsStub,
		ProbeNames: []string{"read-at-or-past-eof", "read-ending-exactly-at-eof", "write-past-eof", "read-spanning-3+-messages", "readn-spanning-messages", "written-spanning-messages"}})
}

func init() {
	reg(&propCfg{ID: "C15", QuickRuns: 8000, QuickSecs: 40, ThoroughRuns: 100000, ThoroughSecs: 780, Chunk: 25,
		RuleNote:   "C15: directories of 0, 1, 2, 3, 7, 50 (thorough also 1000 and 3000) entries with name lengths 1..255 (so entry sizes vary), files and subdirectories, msize 256..64 KiB, both dialects. Five strata by run index: a fixed count enumerated from the largest entry size up to about three entries; random counts per read; a listing abandoned after 1..3 replies and restarted at offset 0; the client's Readdir(0) and Readdir(n); a count smaller than the first entry. Every Rread payload is split into whole records by the independent stat decoder and the concatenated listing is compared with os.ReadDir. The too-small stratum also lists up to a drawn entry k, offers less than entry k needs at that offset (Rerror expected, not an empty reply) and then reads entry k with exactly its size. The too-small stratum also opens a fresh fid whose very first read is too small (Rerror) and then lists through it. Stratum 'huge-directory' (quick: runs 7 and 1008; thorough: every 250th): 4000 entries with names of 200..255 bytes (packed listing > 1 MiB), msize 64 KiB, raw listing with the largest count or the client's Readdir(0). Every 50th run is the stratum 'entry-larger-than-msize': a 252-byte name in a directory served at msize 256..330; a listing (raw with the largest count, or Readdir(0)) must end in an error, not pass the entry over.",
		Real:       ufsReal, Stub: ufsStub,
		ProbeNames: []string{"fixed-count-listing", "restart-at-zero-mid-listing", "client-readdir", "count-too-small"}})
}

func init() {
	reg(&propCfg{ID: "C16", QuickRuns: 2500, QuickSecs: 40, ThoroughRuns: 60000, ThoroughSecs: 780, Chunk: 20,
		RuleNote:   "C16: random trees of 5..40 entries nested up to 3, 8 or 40 levels (names with spaces, non-ASCII bytes, dots, 255-byte names; files, directories, symlinks incl. dangling ones, hard links). Stratum 'raw-walks': 10..40 walks per run from an existing start point by a name list of which a prefix exists (suffix 'missing', prefix 'missing-first', up to 16 elements), to a new fid or in place; number of qids, error iff the first element is missing, qid type/path against os.Lstat, then Tstat of source fid and new fid decide where they point; stat fields (name, permission bits, DMDIR/DMSYMLINK, length, mtime, qid, symlink target) against os.Lstat; one qid path never names two different files. Stratum 'client-paths': FStat of every object through the client (deep paths split into several Twalks). followed by 2..4 goroutines sharing that client and resolving drawn paths concurrently, every answer compared with os.Lstat. The client stratum also resolves the root itself (\"/\" and \"\") between the other look-ups.",
		Real:       ufsReal, Stub: ufsStub,
		ProbeNames: []string{"partial-walk", "partial-walk-in-place", "walk-first-missing", "client-walk-split-into-several-twalks"}})
}

func init() {
	reg(&propCfg{ID: "C17", QuickRuns: 3000, QuickSecs: 40, ThoroughRuns: 50000, ThoroughSecs: 780, Chunk: 20,
		RuleNote:   "C17: a random tree (3..25 entries: files, directories, symlinks, hard links) is created twice; 8..30 (thorough ..80) mutations drawn against the current state — create of a file with each open mode +-OTRUNC followed by a write through the new fid, of a directory, symlink (also dangling) and hard link, write to an existing file, remove of files and of empty and non-empty directories, wstat rename to free and occupied names, truncate to 0..beyond size, chmod, mtime — are applied through raw 9P requests to tree A and with the os package to twin B; after every step the trees are compared recursively (names, kinds, permission bits, contents, link targets, link counts), error replies must leave A unchanged (create, remove) and carry the errno of the POSIX failure in 9P2000.u, and Tstat on the fid after create/rename must name the new object. Create over an existing name may either fail or behave like a non-exclusive open. Every 4th run (stratum os-error) lets one os / syscall call of the mutating request fail with a drawn errno (EIO, ENOSPC, EACCES, EMFILE, ENOENT, EINTR, EROFS, ENOMEM) instead of being performed: the reply must carry that errno, a failed create/remove must leave the tree unchanged, and the twin is re-synchronised afterwards. With probability 0.4 a Twstat step (rename, truncate, chmod, chown, mtime) is sent on a fid that was first opened with a drawn mode (OREAD/OWRITE/ORDWR/OEXEC). Every 4th run is the stratum 'session': 1..4 long-lived fids, each modelled as the path it designates plus (once open) an open file of the twin; 16..60 requests (Tstat, Topen with every mode, Twrite, Tread, Twstat length / mode / name, Tremove, Tcreate through a directory fid, Tclunk) go through a drawn live fid, the twin gets the POSIX operation on that path or open file, replies, read data, stat fields and the two trees are compared after every step; fids that a rename or remove would leave dangling are clunked first. Half of all Twrites are followed at once by 1..3 further requests. Step kind 12 sends one Twstat with a drawn combination of permission bits, name, length and mtime; the twin applies chmod, rename, truncate, utimes in that order. 30 % of the writes are sent as two Twrites on the fid in flight together. In all Ufs checks every os / syscall call of the instrumented Ufs is a schedule point.",
		Real:       ufsReal, Stub: ufsStub,
		ProbeNames: []string{"create-error", "remove-error", "rename", "truncate", "chmod", "set-mtime", "symlink-create", "hardlink-create"}})
}

func init() {
	reg(&propCfg{ID: "C18", QuickRuns: 3000, QuickSecs: 40, ThoroughRuns: 60000, ThoroughSecs: 780, Chunk: 20,
		RuleNote:   "C18: layout outer/{canary.txt, canarydir/inside.txt, root/...} with a further canary above; 6..20 attacking connections per run, each with an attach name, 0..4 walk elements, a create name and a rename target drawn from a grammar over '..', '.', '', '/', absolute paths, '../' chains, elements containing '/', and mixtures with real names, started at the root or at a random depth, followed by stat, open, read / directory read, write, create, rename and remove through whatever fid resulted. Canaries and everything else outside the root (mode, mtime, content, listing) must be unchanged, no qid returned may be that of an object outside the root (inode comparison), no data read may be a canary's, '..' at the root must yield the root's qid. Hostile creates use every kind (file, directory and, in 9P2000.u, symbolic link, hard link, named pipe, device, socket); after an Rcreate the fid is examined with Tstat and a walk to the canary's name. Further steps: a Twstat rename through a fid that designates the root itself (cloned, or reached by 'sub','..'), and Twalk(0->N) + Twalk(N->M by the components of the canary's absolute path) + Tstat(M) written as one segment. The name grammar includes elements with a trailing or embedded '/': '../', './', 'sub/', '..//', '/..', '<real>/'. The tree holds symbolic links that stay inside it but point towards the root (up -> ., sub/back -> .., sub/deep/top -> ../..), and walks go through them and then '..'. In a fifth of the runs the server's working directory is the tree and it exports \".\". Further: sub/deep is renamed through its own fid to the top of the tree and '..','..','canary.txt' is walked from that fid; in a fifth of the runs the export root is spelled through a symbolic link.",
		Real:       ufsReal, Stub: ufsStub,
		ProbeNames: []string{"dotdot-walk", "attach-refused"}})
}

func init() {
	reg(&propCfg{ID: "C20", QuickRuns: 12000, QuickSecs: 40, ThoroughRuns: 300000, ThoroughSecs: 780, Chunk: 50,
		RuleNote:   "C20: capacities 1, 2, 3, 5, 16, 17, 64; histories of 0, 1, N-1, N, N+1, 2N+1, 3N+2 and 10N entries (at most 400) from 3 owners and types {1,2,4}, in 1..4 batches. Stratum 'sequential': one producer; after each batch the system runs to quiescence and Filter (all, and drawn owner/type filters) is compared exactly with a reference ring of the last N entries. Stratum 'concurrent': 1..4 producers and 1..2 filterers as simulated goroutines; every result must contain only logged matching entries, no duplicates, at most N; per-producer order, real-time order and the order inside all results must be acyclic, no matching entry forced between two returned ones may be missing; after producers finish the exact (1 producer) or size (several) check applies; no Log/Filter call may be blocked at quiescence. (sync/atomic operations in the library are schedule points.) Entry and filter types are drawn from 1..6, so some share bits without being equal.",
		Real:       []string{"go9p Logger (NewLogger, Log, Filter, doLog goroutine) — instrumented copy of /repo", "Go runtime, channels"},
		Stub:       []string{"callers: simulated producer and filterer goroutines"},
		ProbeNames: []string{"ring-wrapped-3+-times"}})
}

func init() {
	reg(&propCfg{ID: "C06", QuickRuns: 2400, QuickSecs: 45, ThoroughRuns: 300000, ThoroughSecs: 780, Chunk: 40,
		RuleNote:   "C06: six strata (scripted implementation | Ufs on a scratch tree) x (grammar | byte mutation | raw bytes). A hostile raw peer optionally negotiates (msize 24..70000) and binds fids in several states (attached, walked, opened directory and file), then sends 5..30 frames: every message type (T and R codes) with boundary and random field values (NOFID, NOTAG, 0, max, 2^31, 2^63, 2^64-1), names '', '.', '..', 'a/b', '/', 255, 4000 and 65000 bytes, walks of 16, 17 and 300 elements, counts around msize and 2^32, directory reads at arbitrary offsets, second Tversion mid-session; or valid requests with flipped / inserted / deleted / truncated bytes and edited size fields; or random bytes. A bystander connection issues Tstat throughout and a fresh connection is opened afterwards. Every other Ufs run additionally injects OS errors (20-200 per mille, at most 12) into the os / syscall calls of Ufs. Oracle: no goroutine of the simulated process panics; bystander and later connection are served; allocation stays bounded. Two of every 40 runs are directed Ufs sessions: 1100 Tattach with distinct numeric users followed by stats of objects owned by yet other users; a directory listed through a fid, then emptied and refilled with fewer, longer names, a refused too-small read at offset 0 and a read at the old end offset. The raw-bytes generator includes frames whose count field times the element size wraps around (Rwalk/Twalk/Rread/Twrite with counts 5042, 10083, 15124, 65535 and a matching short body).",
		Real:       append(append([]string{}, srvReal...), "go9p Ufs on a scratch tree (ufs strata)"),
		Stub:       srvStub,
		ProbeNames: []string{"hostile-connection-dropped-by-server", "bystander-worked-throughout", "grammar-Tread", "grammar-Twalk", "grammar-Twstat", "grammar-Tcreate", "grammar-Rread"}})
}

func init() {
	reg(&propCfg{ID: "C19", Race: true, QuickRuns: 2400, QuickSecs: 50, ThoroughRuns: 60000, ThoroughSecs: 900, Chunk: 30,
		RuleNote:   "C19 runs in the race build (only go9p and the standard library are instrumented; scheduler and harness are compiled with -race=false and park/release inside RaceDisable regions, transport reads happen-after earlier writes like sockets do). Strata: 'script/pipelined' (C03 workload: 1..3 connections, up to 16 pipelined requests each on its own fid, answers from other goroutines), 'script/flushes' (C07 workload incl. Tversion at session start), 'ufs/shared-client' (2..8 goroutines sharing one client against Ufs, each on its own file, all walking from the shared root fid, reading a shared directory), 'script/connection-churn' (connections opened and dropped once their requests are answered while two others stay busy). Only race reports and crashes are judged. Added strata: 'client/shared-client' (2..8 goroutines sharing the library client against the scripted peer: Read/Write/Stat/Walk/Clunk, pipelined Tag reads, File.ReadAt, replies withheld and released in drawn order, client logging off / fcalls / packets with a goroutine reading the log), 'logger' (2..4 producers and 1..3 filterers on one Logger); the Ufs stratum uses 1..3 connections and includes '..' walks and renames. The client stratum also issues Tag-interface Walk / Stat / Open / Create / Clunk, some refused by the scripted server. One third of the server-side runs use an implementation with the optional request hooks. In a third of the client and Ufs runs the server answers Tversion with a smaller msize than the client proposed.",
		Real:       append(append(append([]string{}, srvReal...), "go9p client library", "go9p Ufs on a scratch tree"), "Go race detector"),
		Stub:       srvStub,
		ProbeNames: []string{}})
}
