// vdrive: builds the instrumented simulation binary from /repo's working tree,
// runs seeded simulated runs in child processes, minimises and records
// violations, matches known findings, writes evidence (DESIGN.md §3.8-3.10).
//
// Exit codes: 0 property held on everything explored; 1 violation(s);
// 2 trouble (build failure, replay divergence, watchdog, ...).
package main

import (
	"bufio"
	"bytes"
	"encoding/json"
	"flag"
	"fmt"
	"os"
	"os/exec"
	"path/filepath"
	"regexp"
	"sort"
	"strconv"
	"strings"
	"sync"
	"time"
)

type Op struct {
	K   string   `json:"k"`
	A   []int64  `json:"a,omitempty"`
	S   []string `json:"s,omitempty"`
	Sub []Op     `json:"sub,omitempty"`
}

type Case struct {
	Version    int              `json:"version"`
	Property   string           `json:"property"`
	Seed       uint64           `json:"seed"`
	Stratum    string           `json:"stratum,omitempty"`
	Cfg        map[string]int64 `json:"config"`
	Ops        []Op             `json:"workload"`
	Tape       []int32          `json:"tape,omitempty"`
	Strict     bool             `json:"strict,omitempty"`
	Race       bool             `json:"race,omitempty"`
	Rule       string           `json:"rule,omitempty"`
	Summary    string           `json:"summary,omitempty"`
	ExpectHash string           `json:"expected_event_hash,omitempty"`
	Schedule   []string         `json:"schedule_readable,omitempty"`
}

type Violation struct {
	Rule   string `json:"rule"`
	Detail string `json:"detail"`
}

type Result struct {
	Begin      *int           `json:"begin,omitempty"`
	Run        int            `json:"run"`
	Seed       uint64         `json:"seed"`
	Stratum    string         `json:"stratum,omitempty"`
	Viol       []Violation    `json:"viol,omitempty"`
	Trouble    string         `json:"trouble,omitempty"`
	Steps      int            `json:"steps"`
	Multi      int            `json:"multi"`
	Hash       string         `json:"hash"`
	SchedHash  string         `json:"sched"`
	Policy     int            `json:"policy"`
	Faults     map[string]int `json:"faults,omitempty"`
	Probes     map[string]int `json:"probes,omitempty"`
	Nontrivial bool           `json:"nontrivial"`
	Sample     string         `json:"sample,omitempty"`
	Case       *Case          `json:"case,omitempty"`
	Tape       []int32        `json:"tape,omitempty"`
	Schedule   []string       `json:"schedule,omitempty"`
	Porcupine  string         `json:"porcupine,omitempty"`
}

var (
	fProp     = flag.String("prop", "", "property id")
	fTier     = flag.String("tier", "quick", "quick|thorough")
	fSeed     = flag.Uint64("seed", 0, "base seed (default $VERIF_SEED or 1)")
	fReplay   = flag.String("replay", "", "replay file")
	fSelftest = flag.Bool("selftest", false, "determinism self-test for -prop")
	fProcs    = flag.Int("procs", 16, "parallel child processes")
	fRepo     = flag.String("repo", "/repo", "repository working tree to instrument")
	fRuns     = flag.Int("runs", 0, "override the run budget")
	fSecs     = flag.Int("secs", 0, "override the wall-clock budget for the run phase")
	fVerif    = flag.String("verif", "/verif", "verification directory")
	fNoEv     = flag.Bool("noevidence", false, "do not write the evidence file (sensitivity runs)")
	fKeep     = flag.Bool("keep", false, "keep the scratch directory")
	fNoShrink = flag.Bool("noshrink", false, "skip minimisation")
	fOutDir   = flag.String("replaydir", "", "where replay files go (default <verif>/replays)")
	fOne      = flag.Int("one", -1, "debug: run this single run index with a dump of wire and invocation logs")
)

func env() []string {
	e := os.Environ()
	e = append(e, "GOFLAGS=-mod=mod", "GOPROXY=off", "GOSUMDB=off", "GOTOOLCHAIN=local", "CGO_ENABLED=1")
	return e
}

func trouble(format string, a ...any) {
	fmt.Printf("TROUBLE: "+format+"\n", a...)
	cleanup()
	os.Exit(2)
}

var scratch string

func cleanup() {
	if scratch != "" && !*fKeep {
		os.RemoveAll(scratch)
	}
}

func goBin() string {
	for _, p := range []string{"/opt/veriftools/go1.26.8/bin/go"} {
		if _, err := os.Stat(p); err == nil {
			return p
		}
	}
	if p, err := exec.LookPath("go1.26.8"); err == nil {
		return p
	}
	return "go"
}

// build instruments repo into a scratch module and builds the test binary.
func build(race bool) string {
	var err error
	// constant-length name (host paths appear in Ufs error texts; their length must not change between runs)
	for i := 0; ; i++ {
		scratch = filepath.Join(os.TempDir(), fmt.Sprintf("vsim-%08d-%03d", os.Getpid()%100000000, i))
		if err = os.Mkdir(scratch, 0o700); err == nil {
			break
		}
		if i > 900 {
			trouble("mktemp: %v", err)
		}
	}
	inst := filepath.Join(*fVerif, "bin", "instrument")
	if _, err := os.Stat(inst); err != nil {
		trouble("missing %s (run MANIFEST setup_cmd)", inst)
	}
	out, err := exec.Command(inst, *fRepo, scratch).CombinedOutput()
	if err != nil {
		trouble("instrument failed: %v\n%s", err, out)
	}
	if err := os.MkdirAll(filepath.Join(scratch, "vsim"), 0o755); err != nil {
		trouble("%v", err)
	}
	for _, d := range []string{"rt", "h"} {
		cp := exec.Command("cp", "-r", filepath.Join(*fVerif, "sim", d), filepath.Join(scratch, "vsim", d))
		if o, err := cp.CombinedOutput(); err != nil {
			trouble("copy: %v %s", err, o)
		}
	}
	gomod := "module github.com/rminnich/go9p\n\ngo 1.26.8\n\nrequire github.com/anishathalye/porcupine v1.3.0\n"
	os.WriteFile(filepath.Join(scratch, "go.mod"), []byte(gomod), 0o644)
	args := []string{"test", "-c", "-o", "h.test"}
	if race {
		args = append(args, "-race", "-gcflags=github.com/rminnich/go9p/vsim/...=-race=false")
	}
	args = append(args, "./vsim/h")
	cmd := exec.Command(goBin(), args...)
	cmd.Dir = scratch
	cmd.Env = env()
	if o, err := cmd.CombinedOutput(); err != nil {
		trouble("build of the instrumented tree failed: %v\n%s", err, tail(string(o), 4000))
	}
	os.MkdirAll(filepath.Join(scratch, "fs"), 0o755)
	return filepath.Join(scratch, "h.test")
}

func tail(s string, n int) string {
	if len(s) > n {
		return "..." + s[len(s)-n:]
	}
	return s
}

type job struct{ from, to int }

type childOut struct {
	results []*Result
	crashed *Result // synthetic result for a run that killed the child
	next    int     // first run index not executed
	trouble string
}

var jobSeq int
var jobMu sync.Mutex
var watchdogSecs = 120

// runChild executes runs [from,to) of prop in one child process.
func runChild(bin, prop string, base uint64, tier string, j job, race bool, extra ...string) *childOut {
	jobMu.Lock()
	jobSeq++
	id := jobSeq
	jobMu.Unlock()
	outf := filepath.Join(scratch, fmt.Sprintf("out-%d.jsonl", id))
	errf := filepath.Join(scratch, fmt.Sprintf("err-%d.txt", id))
	args := []string{"-test.run", "^TestSim$", "-test.timeout", "0", "-prop", prop, "-base", strconv.FormatUint(base, 10),
		"-from", strconv.Itoa(j.from), "-to", strconv.Itoa(j.to), "-tier", tier, "-out", outf, "-scratch", filepath.Join(scratch, "fs")}
	if race {
		args = append(args, "-racebuild")
	}
	var envExtra []string
	for _, e := range extra {
		if strings.HasPrefix(e, "ENV:") {
			envExtra = append(envExtra, e[4:])
		} else {
			args = append(args, e)
		}
	}
	cmd := exec.Command(bin, args...)
	cmd.Dir = scratch
	ef, _ := os.Create(errf)
	cmd.Stderr = ef
	cmd.Stdout = nil
	cmd.Env = append(env(), "GORACE=halt_on_error=1 history_size=3")
	cmd.Env = append(cmd.Env, envExtra...)
	if err := cmd.Start(); err != nil {
		return &childOut{trouble: "start child: " + err.Error(), next: j.to}
	}
	done := make(chan error, 1)
	go func() { done <- cmd.Wait() }()
	// watchdog: the progress file must advance at least every 120 s
	var werr error
	lastSize, lastChange := int64(-1), time.Now()
	killed := false
loop:
	for {
		select {
		case werr = <-done:
			break loop
		case <-time.After(2 * time.Second):
			if st, err := os.Stat(outf); err == nil && st.Size() != lastSize {
				lastSize, lastChange = st.Size(), time.Now()
			} else if time.Since(lastChange) > time.Duration(watchdogSecs)*time.Second {
				cmd.Process.Kill()
				killed = true
			}
		}
	}
	ef.Close()
	co := &childOut{next: j.to}
	f, err := os.Open(outf)
	begun, begunSeed := -1, uint64(0)
	if err == nil {
		sc := bufio.NewScanner(f)
		sc.Buffer(make([]byte, 1<<20), 1<<28)
		for sc.Scan() {
			r := &Result{}
			if err := json.Unmarshal(sc.Bytes(), r); err != nil {
				continue
			}
			if r.Begin != nil {
				begun, begunSeed = *r.Begin, r.Seed
				continue
			}
			begun = -1
			co.results = append(co.results, r)
		}
		f.Close()
	}
	os.Remove(outf)
	if werr != nil || killed {
		stderr, _ := os.ReadFile(errf)
		if killed {
			co.trouble = fmt.Sprintf("watchdog: run %d made no progress for %d s", begun, watchdogSecs)
		} else if begun >= 0 {
			rule, detail := classifyCrash(string(stderr))
			co.crashed = &Result{Run: begun, Seed: begunSeed, Viol: []Violation{{rule, detail}}, Faults: map[string]int{}, Probes: map[string]int{}}
			co.next = begun + 1
		} else {
			co.trouble = "child failed outside any run: " + werr.Error() + "\n" + tail(string(stderr), 2000)
		}
	}
	os.Remove(errf)
	return co
}

var reGo9pFrame = regexp.MustCompile(`github\.com/rminnich/go9p\.([^\s(]+(?:\([^)]*\)\.[^\s(]+)?)\(`)

// classifyCrash derives (rule, detail) from a dead child's stderr.
func classifyCrash(stderr string) (string, string) {
	kind := "crash"
	msg := ""
	lines := strings.Split(stderr, "\n")
	start := 0
	for i, ln := range lines {
		switch {
		case strings.HasPrefix(ln, "WARNING: DATA RACE"):
			kind, msg, start = "race", "data race", i
		case strings.HasPrefix(ln, "panic: "):
			kind, msg, start = "panic", strings.TrimPrefix(ln, "panic: "), i
		case strings.HasPrefix(ln, "fatal error: "):
			kind, msg, start = "fatal", strings.TrimPrefix(ln, "fatal error: "), i
		default:
			continue
		}
		break
	}
	if kind == "race" {
		// innermost go9p frame of each of the two stacks
		var fns []string
		inStack := false
		got := false
		for _, ln := range lines[start:] {
			t := strings.TrimSpace(ln)
			if strings.HasPrefix(t, "Write at") || strings.HasPrefix(t, "Read at") || strings.HasPrefix(t, "Previous write at") || strings.HasPrefix(t, "Previous read at") {
				inStack, got = true, false
				continue
			}
			if strings.HasPrefix(t, "Goroutine ") || strings.HasPrefix(t, "====") {
				inStack = false
			}
			if inStack && !got {
				if i := strings.Index(t, "github.com/rminnich/go9p."); i == 0 && !strings.Contains(t, "/vsim/") {
					fn := t[len("github.com/rminnich/go9p."):]
					if j := strings.IndexByte(fn, '('); j >= 0 && !strings.HasPrefix(fn, "(") {
						fn = fn[:j]
					} else if strings.HasPrefix(fn, "(") {
						if j := strings.Index(fn, ")."); j >= 0 {
							rest := fn[j+2:]
							if k := strings.IndexByte(rest, '('); k >= 0 {
								rest = rest[:k]
							}
							fn = strings.Trim(fn[:j+1], "(*)") + "." + rest
						}
					}
					fns = append(fns, fn)
					got = true
				}
			}
		}
		sort.Strings(fns)
		sig := strings.Join(fns, "|")
		if sig == "" {
			sig = "no-go9p-frame"
		}
		return "race@" + sig, "data race between " + sig + "\n" + tail(strings.Join(lines[start:min(len(lines), start+60)], "\n"), 3000)
	}
	fn := "unknown"
	for _, ln := range lines[start:] {
		t := strings.TrimSpace(ln)
		if strings.HasPrefix(t, "github.com/rminnich/go9p.") && !strings.Contains(t, "/vsim/") {
			fn = t[len("github.com/rminnich/go9p."):]
			if j := strings.LastIndexByte(fn, '('); j > 0 {
				fn = fn[:j]
			}
			break
		}
	}
	return kind + "@" + fn, kind + ": " + msg + " @ " + fn
}

// runOne runs a single case file in a fresh child; returns its result or a crash result.
func runOne(bin string, c *Case, race bool, lenient, trace bool) (*Result, string) {
	jobMu.Lock()
	jobSeq++
	id := jobSeq
	jobMu.Unlock()
	cf := filepath.Join(scratch, fmt.Sprintf("case-%d.json", id))
	b, _ := json.Marshal(c)
	os.WriteFile(cf, b, 0o644)
	defer os.Remove(cf)
	extra := []string{"-replay", cf}
	if lenient {
		extra = append(extra, "-lenient")
	}
	if trace {
		extra = append(extra, "-trace")
	}
	co := runChild(bin, c.Property, 0, "quick", job{0, 1}, race, extra...)
	if co.trouble != "" {
		return nil, co.trouble
	}
	if co.crashed != nil {
		co.crashed.Seed = c.Seed
		return co.crashed, ""
	}
	if len(co.results) != 1 {
		return nil, "child produced no result"
	}
	return co.results[0], ""
}

func hasRule(r *Result, rule string) *Violation {
	if r == nil {
		return nil
	}
	for i := range r.Viol {
		if r.Viol[i].Rule == rule {
			return &r.Viol[i]
		}
	}
	return nil
}

func cloneCase(c *Case) *Case {
	b, _ := json.Marshal(c)
	n := &Case{}
	json.Unmarshal(b, n)
	return n
}

// opPaths enumerates removable ops as index paths (top level and one level of Sub).
func opPaths(ops []Op) [][]int {
	var ps [][]int
	for i := len(ops) - 1; i >= 0; i-- {
		for j := len(ops[i].Sub) - 1; j >= 0; j-- {
			ps = append(ps, []int{i, j})
		}
		ps = append(ps, []int{i})
	}
	return ps
}

func removeOp(c *Case, p []int) *Case {
	n := cloneCase(c)
	if len(p) == 1 {
		n.Ops = append(n.Ops[:p[0]], n.Ops[p[0]+1:]...)
	} else {
		s := n.Ops[p[0]].Sub
		n.Ops[p[0]].Sub = append(s[:p[1]], s[p[1]+1:]...)
	}
	return n
}

// shrink minimises a failing case while the same rule keeps failing.
func shrink(bin string, c *Case, rule string, race bool, budget time.Duration) (*Case, int) {
	deadline := time.Now().Add(budget)
	tried := 0
	cur := c
	try := func(cand *Case) bool {
		if time.Now().After(deadline) || tried >= 400 {
			return false
		}
		// first with the PRNG of the seed, then with the current tape taken leniently
		for mode := 0; mode < 2; mode++ {
			k := cloneCase(cand)
			if mode == 0 {
				k.Tape = nil
			} else if cur.Tape == nil {
				continue
			} else {
				k.Tape = cur.Tape
			}
			tried++
			r, tr := runOne(bin, k, race, true, false)
			if tr != "" || r == nil {
				continue
			}
			if hasRule(r, rule) != nil {
				k.Tape = r.Tape
				if r.Tape == nil && mode == 1 {
					k.Tape = cur.Tape
				}
				cur = k
				return true
			}
		}
		return false
	}
	// 1. workload
	for changed := true; changed; {
		changed = false
		for _, p := range opPaths(cur.Ops) {
			if len(p) == 1 && len(cur.Ops) <= 1 {
				continue
			}
			if p[0] >= len(cur.Ops) || (len(p) == 2 && p[1] >= len(cur.Ops[p[0]].Sub)) {
				continue
			}
			if try(removeOp(cur, p)) {
				changed = true
			}
		}
		if time.Now().After(deadline) {
			break
		}
	}
	// 2. configuration towards the plainest values
	for _, kv := range []struct {
		k string
		v int64
	}{{"holdpct", 0}, {"debug", 0}, {"cap", 0}, {"late", 0}, {"seg", 3}, {"policy", 0}, {"maxpend", 0}, {"nconn", 1}, {"osfault", 0}} {
		if v, ok := cur.Cfg[kv.k]; ok && v != kv.v {
			k := cloneCase(cur)
			k.Cfg[kv.k] = kv.v
			try(k)
		}
	}
	// 2b. size parameters of workloads that are generated inside the run (smaller is simpler)
	for _, k := range []string{"nattacks", "nops", "nwalks", "nframes", "entries", "callers", "total", "batches", "nfilters", "churn", "nfiles", "prefill", "nconn", "producers", "filterers", "late", "n"} {
		for {
			v, ok := cur.Cfg[k]
			if !ok || v <= 1 || time.Now().After(deadline) || tried >= 400 {
				break
			}
			c2 := cloneCase(cur)
			c2.Cfg[k] = v / 2
			if !try(c2) {
				c3 := cloneCase(cur)
				c3.Cfg[k] = v - 1
				if v-1 == v/2 || !try(c3) {
					break
				}
			}
		}
	}
	// 3. tape: shorter prefixes (an exhausted tape means "lowest id runs": the canonical schedule)
	if cur.Tape != nil {
		for len(cur.Tape) > 8 && tried < 400 && time.Now().Before(deadline) {
			progressed := false
			for _, frac := range []int{8, 4, 2} {
				n := len(cur.Tape) - len(cur.Tape)/frac
				n -= n % 2
				if n >= len(cur.Tape) {
					continue
				}
				k := cloneCase(cur)
				k.Tape = append([]int32(nil), cur.Tape[:n]...)
				tried++
				r, tr := runOne(bin, k, race, true, false)
				if tr == "" && hasRule(r, rule) != nil {
					cur = k // keep the truncated tape: the rest of the run follows the canonical schedule
					progressed = true
					break
				}
			}
			if !progressed {
				break
			}
		}
	}
	return cur, tried
}

type finding struct {
	prop   string
	rule   *regexp.Regexp
	detail *regexp.Regexp
	desc   string
	raw    string
}

func loadFindings(prop string) []finding {
	var fs []finding
	b, err := os.ReadFile(filepath.Join(*fVerif, "KNOWN_FINDINGS.txt"))
	if err != nil {
		return nil
	}
	re := regexp.MustCompile(`^finding:\s+property=(\S+)\s+rule=(\S+)\s+detail=/(.*)/\s+::\s*(.*)$`)
	for _, ln := range strings.Split(string(b), "\n") {
		m := re.FindStringSubmatch(strings.TrimSpace(ln))
		if m == nil || m[1] != prop {
			continue
		}
		r1, e1 := regexp.Compile("^(?:" + m[2] + ")$")
		r2, e2 := regexp.Compile(m[3])
		if e1 != nil || e2 != nil {
			trouble("bad regexp in KNOWN_FINDINGS.txt: %s", ln)
		}
		fs = append(fs, finding{prop, r1, r2, m[4], ln})
	}
	return fs
}

func matchFinding(fs []finding, v Violation) *finding {
	for i := range fs {
		if fs[i].rule.MatchString(v.Rule) && fs[i].detail.MatchString(v.Detail) {
			return &fs[i]
		}
	}
	return nil
}

func main() {
	flag.Parse()
	base := *fSeed
	if base == 0 {
		if s := os.Getenv("VERIF_SEED"); s != "" {
			if v, err := strconv.ParseUint(s, 10, 64); err == nil {
				base = v
			} else if v, err := strconv.ParseInt(s, 10, 64); err == nil {
				base = uint64(v)
			}
		}
		if base == 0 {
			base = 1
		}
	}
	if t := os.Getenv("VERIF_TIER"); t == "quick" || t == "thorough" {
		if !isFlagSet("tier") {
			*fTier = t
		}
	}
	if *fReplay != "" {
		os.Exit(doReplay(*fReplay))
	}
	pc, ok := propTable[*fProp]
	if !ok {
		fmt.Printf("unknown property %q\n", *fProp)
		os.Exit(2)
	}
	if *fSelftest {
		os.Exit(doSelftest(pc, base))
	}
	if *fOne >= 0 {
		bin := build(pc.Race)
		cmd := exec.Command(bin, "-test.run", "^TestSim$", "-test.timeout", "0", "-prop", pc.ID, "-base", strconv.FormatUint(base, 10),
			"-from", strconv.Itoa(*fOne), "-to", strconv.Itoa(*fOne+1), "-tier", *fTier, "-scratch", filepath.Join(scratch, "fs"))
		if extra := os.Getenv("VERIF_ONE_ARGS"); extra != "" {
			cmd.Args = append(cmd.Args, strings.Fields(extra)...)
		} else {
			cmd.Args = append(cmd.Args, "-dump")
		}
		cmd.Dir = scratch
		cmd.Env = env()
		cmd.Stdout, cmd.Stderr = os.Stdout, os.Stderr
		cmd.Run()
		cleanup()
		os.Exit(0)
	}
	os.Exit(doCheck(pc, base))
}

func isFlagSet(name string) bool {
	set := false
	flag.Visit(func(f *flag.Flag) {
		if f.Name == name {
			set = true
		}
	})
	return set
}

func doReplay(path string) int {
	b, err := os.ReadFile(path)
	if err != nil {
		trouble("%v", err)
	}
	c := &Case{}
	if err := json.Unmarshal(b, c); err != nil {
		trouble("replay file: %v", err)
	}
	bin := build(c.Race)
	defer cleanup()
	r, tr := runOne(bin, c, c.Race, false, false)
	if tr != "" {
		trouble("%s", tr)
	}
	if r.Trouble != "" {
		trouble("%s", r.Trouble)
	}
	if v := hasRule(r, c.Rule); v != nil {
		fmt.Printf("reproduced: %s: %s\n", v.Rule, v.Detail)
		fmt.Printf("VIOLATION property=%s replay=%s\n", c.Property, path)
		cleanup()
		return 1
	}
	for _, v := range r.Viol {
		fmt.Printf("different violation: %s: %s\n", v.Rule, v.Detail)
	}
	fmt.Printf("not reproduced: property=%s rule=%s replay=%s\n", c.Property, c.Rule, path)
	return 0
}

func doSelftest(pc *propCfg, base uint64) int {
	bin := build(pc.Race)
	defer cleanup()
	nseeds, nproc := 40, 30
	if *fRuns > 0 {
		nseeds = *fRuns
	}
	hashes := map[int]map[string]int{}
	var mu sync.Mutex
	var wg sync.WaitGroup
	sem := make(chan struct{}, *fProcs)
	gmps := []string{"1", "4", "16"}
	troubleMsg := ""
	for p := 0; p < nproc; p++ {
		wg.Add(1)
		sem <- struct{}{}
		go func(p int) {
			defer wg.Done()
			defer func() { <-sem }()
			co := runChild(bin, pc.ID, base, *fTier, job{0, nseeds}, pc.Race, "ENV:GOMAXPROCS="+gmps[p%3])
			mu.Lock()
			defer mu.Unlock()
			if co.trouble != "" {
				troubleMsg = co.trouble
			}
			rs := co.results
			if co.crashed != nil {
				rs = append(rs, co.crashed)
			}
			for _, r := range rs {
				if hashes[r.Run] == nil {
					hashes[r.Run] = map[string]int{}
				}
				h := r.Hash
				for _, v := range r.Viol {
					h += "|" + v.Rule
				}
				hashes[r.Run][h]++
			}
		}(p)
	}
	wg.Wait()
	if troubleMsg != "" {
		trouble("selftest: %s", troubleMsg)
	}
	bad := 0
	for run, m := range hashes {
		if len(m) != 1 {
			bad++
			fmt.Printf("NONDETERMINISM: property=%s run=%d seed-base=%d outcomes=%v\n", pc.ID, run, base, m)
		}
	}
	fmt.Printf("selftest %s: %d seeds x %d processes (GOMAXPROCS 1/4/16), %d nondeterministic\n", pc.ID, len(hashes), nproc, bad)
	if bad > 0 {
		return 2
	}
	return 0
}

type violRec struct {
	res  *Result
	v    Violation
	know *finding
}

func doCheck(pc *propCfg, base uint64) int {
	t0 := time.Now()
	if pc.WatchdogSecs > 0 {
		watchdogSecs = pc.WatchdogSecs
	}
	bin := build(pc.Race)
	defer cleanup()
	buildS := time.Since(t0).Seconds()
	runs, secs := pc.QuickRuns, pc.QuickSecs
	if *fTier == "thorough" {
		runs, secs = pc.ThoroughRuns, pc.ThoroughSecs
	}
	if *fRuns > 0 {
		runs = *fRuns
	}
	if *fSecs > 0 {
		secs = *fSecs
	}
	chunk := pc.Chunk
	if chunk == 0 {
		chunk = 40
	}
	findings := loadFindings(pc.ID)

	var mu sync.Mutex
	var all []*Result
	var troubles []string
	next := 0
	deadline := time.Now().Add(time.Duration(secs) * time.Second)
	var requeue []job
	getJob := func() (job, bool) {
		mu.Lock()
		defer mu.Unlock()
		if time.Now().After(deadline) {
			return job{}, false
		}
		if len(requeue) > 0 {
			j := requeue[0]
			requeue = requeue[1:]
			return j, true
		}
		if next >= runs {
			return job{}, false
		}
		j := job{next, min(next+chunk, runs)}
		next = j.to
		return j, true
	}
	tRun := time.Now()
	var wg sync.WaitGroup
	for w := 0; w < *fProcs; w++ {
		wg.Add(1)
		go func(w int) {
			defer wg.Done()
			for {
				j, ok := getJob()
				if !ok {
					return
				}
				extra := []string{}
				if j.from == 0 {
					extra = append(extra, "-samples", "4")
				}
				co := runChild(bin, pc.ID, base, *fTier, j, pc.Race, extra...)
				mu.Lock()
				all = append(all, co.results...)
				if co.crashed != nil {
					all = append(all, co.crashed)
					if co.next < j.to {
						requeue = append(requeue, job{co.next, j.to})
					}
				}
				if co.trouble != "" {
					troubles = append(troubles, co.trouble)
				}
				mu.Unlock()
			}
		}(w)
	}
	wg.Wait()
	runS := time.Since(tRun).Seconds()
	sort.Slice(all, func(i, j int) bool { return all[i].Run < all[j].Run })

	// aggregate
	faults, probes, policies, strata := map[string]int{}, map[string]int{}, map[string]int{}, map[string]int{}
	distinct, distinctNT := map[string]bool{}, map[string]bool{}
	totalSteps := 0
	var samples []string
	var viols []violRec
	porc := map[string]int{}
	for _, r := range all {
		totalSteps += r.Steps
		for k, v := range r.Faults {
			faults[k] += v
		}
		for k, v := range r.Probes {
			probes[k] += v
		}
		policies[policyName(r.Policy)]++
		if r.Stratum != "" {
			strata[r.Stratum]++
		}
		if r.Porcupine != "" {
			porc[r.Porcupine]++
		}
		distinct[r.SchedHash] = true
		if r.Nontrivial {
			distinctNT[r.SchedHash] = true
		}
		if r.Sample != "" && len(samples) < 5 {
			samples = append(samples, r.Sample)
		}
		if r.Trouble != "" {
			troubles = append(troubles, fmt.Sprintf("run %d seed %d: %s", r.Run, r.Seed, r.Trouble))
		}
		for _, v := range r.Viol {
			if strings.HasSuffix(v.Rule, "@unknown") || strings.Contains(v.Rule, "@harness:") {
				// a crash with no library frame on the stack is the harness's own: trouble, never a violation
				troubles = append(troubles, fmt.Sprintf("run %d seed %d: harness crash: %s", r.Run, r.Seed, v.Detail))
				continue
			}
			viols = append(viols, violRec{r, v, matchFinding(findings, v)})
		}
	}

	// group violations by rule; handle the first of each class
	exit := 0
	seenKnown := map[string]int{}
	classes := map[string]*violRec{}
	var order []string
	for i := range viols {
		vr := &viols[i]
		if vr.know != nil {
			seenKnown[vr.know.raw]++
			continue
		}
		if _, ok := classes[vr.v.Rule]; !ok {
			classes[vr.v.Rule] = vr
			order = append(order, vr.v.Rule)
		}
	}
	nViol, transient := 0, 0
	replayDir := *fOutDir
	if replayDir == "" {
		replayDir = filepath.Join(*fVerif, "replays")
	}
	for ci, rule := range order {
		vr := classes[rule]
		fmt.Printf("violation: property=%s rule=%s run=%d seed=%d: %s\n", pc.ID, rule, vr.res.Run, vr.res.Seed, vr.v.Detail)
		path := filepath.Join(replayDir, fmt.Sprintf("%s-%s-%d.json", pc.ID, sanitize(rule), vr.res.Seed))
		if ci < 4 {
			c := vr.res.Case
			if c == nil {
				// the child died: regenerate the case from its seed
				c = regen(bin, pc, base, vr.res.Run)
			}
			if c != nil {
				if !writeReplay(bin, pc, c, vr, path) {
					// what cannot be shown again is not reported as a violation of the property: it is trouble with
					// the machinery or its host (exit 2), whatever it was
					if strings.HasPrefix(rule, "fatal@") {
						// an abort of the Go runtime itself (not a panic of the library) that three fresh runs of the
						// same case do not show again: the run counts as passed on the strength of those re-runs
						fmt.Printf("NOTE: %s of run %d (seed %d) was a one-off abort of the Go runtime: the same case passed in three fresh processes\n", rule, vr.res.Run, vr.res.Seed)
						transient++
						continue
					}
					troubles = append(troubles, fmt.Sprintf("%s of run %d (seed %d) did not happen again in three fresh processes: not reported as a violation", rule, vr.res.Run, vr.res.Seed))
					continue
				}
			} else {
				path = "(case could not be regenerated)"
			}
		} else {
			path = "(not minimised: more than 4 violation classes in one run)"
		}
		nViol++
		exit = 1
		fmt.Printf("VIOLATION property=%s replay=%s\n", pc.ID, path)
	}
	for _, f := range findings {
		if n := seenKnown[f.raw]; n > 0 {
			fmt.Printf("KNOWN-FINDING: property=%s %s (seen in %d runs)\n", pc.ID, f.desc, n)
		}
	}
	if len(troubles) > 0 {
		sort.Strings(troubles)
		for i, t := range troubles {
			if i < 5 {
				fmt.Printf("TROUBLE: %s\n", t)
			}
		}
		if exit == 0 {
			exit = 2
		}
	}
	if len(all) == 0 && exit == 0 {
		fmt.Println("TROUBLE: no runs completed")
		exit = 2
	}

	wall := time.Since(t0).Seconds()
	if !*fNoEv {
		ev := map[string]any{
			"property_id": pc.ID,
			"tier":        *fTier,
			"seed":        int64(base & 0x7FFFFFFFFFFFFFFF),
			"level":       pc.Level,
			"wall_s":      round1(wall),
			"violations":  nViol,
			"transient_runtime_aborts_rerun_clean": transient,
			"assumptions": pc.Assumptions,
			"coverage": map[string]any{
				"evaluations":          len(all),
				"distinct_nontrivial":  len(distinctNT),
				"distinct_interleavings": len(distinct),
				"rule": "cases are generated from (VERIF_SEED, property, run index): configuration swarm + explicit workload + fault plan; every scheduling decision, select order, map order, transport read size and fault trigger is drawn from the run's seeded choice source. distinct = distinct hash of the (goroutine id, schedule site) sequence; non-trivial = the scheduler had >= 2 enabled goroutines at >= 10 steps AND at least one fault/hold/segmentation event actually fired in that run. " + pc.RuleNote,
				"samples":              samplesOrDefault(samples, all),
				"simulated_steps":      totalSteps,
				"simulated_time_note":  "go9p reads no clock; simulated time is logical: one unit = one scheduler step",
				"runs_per_hour":        int(float64(len(all)) / max(runS, 0.001) * 3600),
				"steps_per_second":     int(float64(totalSteps) / max(runS, 0.001)),
				"build_s":              round1(buildS),
				"run_phase_s":          round1(runS),
				"fault_fire_counts":    faults,
				"probe_hits":           probes,
				"policy_runs":          policies,
				"strata_runs":          strata,
				"porcupine_verdicts":   porc,
				"known_findings_seen":  len(seenKnown),
				"troubles":             len(troubles),
				"components_real":      pc.Real,
				"components_stub":      pc.Stub,
				"processes":            *fProcs,
				"exhaustive":           false,
			},
		}
		b, _ := json.MarshalIndent(ev, "", " ")
		os.MkdirAll(filepath.Join(*fVerif, "evidence"), 0o755)
		os.WriteFile(filepath.Join(*fVerif, "evidence", pc.ID+".json"), append(b, '\n'), 0o644)
	}
	fmt.Printf("%s %s: %d runs, %d steps, %d distinct interleavings (%d non-trivial), %d violation classes, %d known findings, %.1fs (build %.1fs)\n",
		pc.ID, *fTier, len(all), totalSteps, len(distinct), len(distinctNT), nViol, len(seenKnown), wall, buildS)
	// zero probes in thorough are worth a warning
	if *fTier == "thorough" {
		for _, p := range pc.ProbeNames {
			if probes[p] == 0 {
				fmt.Printf("warning: probe %q was never hit\n", p)
			}
		}
	}
	return exit
}

func samplesOrDefault(s []string, all []*Result) []string {
	if len(s) > 0 {
		return s
	}
	for _, r := range all {
		if r.Case != nil {
			b, _ := json.Marshal(r.Case.Ops)
			return []string{tail(string(b), 600)}
		}
	}
	return []string{"(no sample recorded)"}
}

func round1(f float64) float64 { return float64(int(f*10+0.5)) / 10 }

func sanitize(s string) string {
	return regexp.MustCompile(`[^A-Za-z0-9_.-]+`).ReplaceAllString(s, "_")
}

func policyName(p int) string {
	switch p {
	case 0:
		return "uniform"
	case 1:
		return "sticky"
	case 2:
		return "pct"
	case 3:
		return "starve"
	}
	return "p" + strconv.Itoa(p)
}

// regen asks a child to print the generated case for one run (used when the
// run killed the child before it could report its case).
func regen(bin string, pc *propCfg, base uint64, run int) *Case {
	cmd := exec.Command(bin, "-test.run", "^TestSim$", "-prop", pc.ID, "-base", strconv.FormatUint(base, 10),
		"-from", strconv.Itoa(run), "-to", strconv.Itoa(run+1), "-tier", *fTier, "-gencase")
	cmd.Dir = scratch
	cmd.Env = env()
	out, err := cmd.Output()
	if err != nil {
		return nil
	}
	for _, ln := range bytes.Split(out, []byte("\n")) {
		if bytes.HasPrefix(ln, []byte("{")) {
			c := &Case{}
			if json.Unmarshal(ln, c) == nil && c.Property == pc.ID {
				return c
			}
		}
	}
	return nil
}

func writeReplay(bin string, pc *propCfg, c *Case, vr *violRec, path string) bool {
	c = cloneCase(c)
	c.Race = pc.Race
	c.Rule = vr.v.Rule
	if vr.res.Tape != nil {
		c.Tape = vr.res.Tape
	}
	// confirm in a fresh process
	r, tr := runOne(bin, c, pc.Race, c.Tape == nil, false)
	confirmed := tr == "" && hasRule(r, c.Rule) != nil
	if !confirmed && c.Tape != nil {
		// a crashed child leaves no tape: fall back to the seed's PRNG
		k := cloneCase(c)
		k.Tape = nil
		r, tr = runOne(bin, k, pc.Race, true, false)
		if tr == "" && hasRule(r, c.Rule) != nil {
			c, confirmed = k, true
		}
	}
	for try := 0; !confirmed && try < 2; try++ {
		k := cloneCase(c)
		k.Tape = nil
		if r2, tr2 := runOne(bin, k, pc.Race, true, false); tr2 == "" && hasRule(r2, c.Rule) != nil {
			c, r, confirmed = k, r2, true
		}
	}
	if !confirmed {
		return false
	}
	if r != nil && r.Tape != nil {
		c.Tape = r.Tape
	}
	tried := 0
	if confirmed && !*fNoShrink {
		orig := len(c.Ops)
		c, tried = shrink(bin, c, c.Rule, pc.Race, 75*time.Second)
		fmt.Printf("minimised: %d -> %d top-level ops, tape %d choices, %d candidates\n", orig, len(c.Ops), len(c.Tape)/2, tried)
	}
	// the minimised tape may be a prefix: run it leniently once and keep the complete recorded tape
	pre := len(c.Tape) / 2
	if r0, tr0 := runOne(bin, c, pc.Race, true, false); tr0 == "" && hasRule(r0, c.Rule) != nil && r0.Tape != nil {
		c.Tape = r0.Tape
		fmt.Printf("minimised tape: %d scheduler/transport choices are free, the remaining %d follow the canonical (lowest-id-first) schedule\n", pre, len(c.Tape)/2-pre)
	}
	// final strict run with trace
	fin := cloneCase(c)
	fin.Strict = true
	r, tr = runOne(bin, fin, pc.Race, fin.Tape == nil, true)
	if tr == "" && r != nil {
		if v := hasRule(r, c.Rule); v != nil {
			c.Summary = v.Detail
			c.ExpectHash = r.Hash
			if r.Tape != nil && c.Tape == nil {
				c.Tape = r.Tape
			}
			sch := r.Schedule
			if len(sch) > 300 {
				sch = append([]string{fmt.Sprintf("... %d earlier steps omitted ...", len(sch)-300)}, sch[len(sch)-300:]...)
			}
			c.Schedule = sch
		} else {
			c.Summary = vr.v.Detail + " (minimised form did not reproduce under trace; unminimised case kept)"
		}
	} else {
		c.Summary = vr.v.Detail
	}
	c.Strict = true
	os.MkdirAll(filepath.Dir(path), 0o755)
	b, _ := json.MarshalIndent(c, "", " ")
	os.WriteFile(path, append(b, '\n'), 0o644)
	return true
}
