#!/usr/bin/env python3
# usage: seedstore.py <name> <property> <srcdir> <caught-by rules> <needs...>
import sys, os, json, shutil, glob
name, prop, src, rules = sys.argv[1:5]
needs = " ".join(sys.argv[5:])
d = f"/verif/seeded/{name}"
os.makedirs(d, exist_ok=True)
shutil.copy(f"{src}/patch.diff", d)
for f in glob.glob(f"{src}/*_test.go") + glob.glob(f"{src}/*.go"):
    shutil.copy(f, d + "/" + os.path.basename(f) + ".txt")   # .txt so that no tool compiles it by accident
if os.path.exists(f"{src}/notes.md"):
    shutil.copy(f"{src}/notes.md", d)
meta = {"property": prop, "breaks": open(f"/tmp/prop-{prop}.txt").read().split("\n")[1].replace("title: ", ""),
        "needs_to_manifest": needs,
        "confirmed": "tools/seedcheck.sh: fresh worktree of /repo HEAD; existing suite passes with the change; demonstration fails with it and passes without it",
        "ran": f"tools/seedcheck.sh {name} {prop} <dir>  (applies patch.diff to a scratch worktree, runs the suite, the demo with and without, then ./check {prop} quick against the changed tree via vdrive -repo)",
        "detected_by": f"./check {prop} quick", "rules_fired": rules.split(",") if rules else [], "detected": bool(rules)}
json.dump(meta, open(d + "/meta.json", "w"), indent=1)
print("stored", d)
