#!/usr/bin/env python3
# Regenerates /verif/MANIFEST.json from the table below and validates it.
import json, sys
claimed = {
 "C10": dict(level="fault_enumeration", ref="§4 C10",
   text="Deterministic simulation of the real client library against a scripted server peer over a simulated transport. The server->client stream of a fixed session is cut (EOF and reset) after every enumerated byte offset while schedules are sampled; beyond that a seeded swarm of faults (write errors, Unmount at a drawn step, unparseable / undersize / oversize frames, replies to unknown tags, peer close, stalled peer) lands inside sessions of 1..8 concurrent callers incl. the pipelined Tag interface. 'Never hangs' is decided exactly: at final quiescence, after all faults fired and all withheld replies were released, a caller that has not returned is blocked on something no goroutine can provide. Sampling of schedules, so evidence not proof.",
   note="Trusts: the instrumenter placing schedule points at every mutex/channel/select/go site of the client; the simulated net.Conn standing in for TCP (ordered reliable byte stream with cuts); the scripted peer's independent codec.",
   technique="deterministic simulation: seeded scheduler + simulated transport with enumerated stream cuts and injected faults; quiescence-based liveness oracle"),
 "C03": dict(level="exploration", ref="§4 C03",
   text="Deterministic simulation of the real server framework with a scripted implementation: raw client peers pipeline 1..64 requests of 9 types per connection on reused tags while the script finishes them in scheduler-chosen order (now, parked, after returning, from another goroutine, twice). Every reply on the wire is decoded by an independent codec and compared byte for byte with what the script produced first for that request; replies for tags with no outstanding request, second replies and missing replies at final quiescence are violations.",
   note="Trusts the instrumenter's schedule points, the simulated transport and the harness codec. The stratum in which the duplicate answer is an Rerror is a recorded known finding (KNOWN_FINDINGS.txt).",
   technique="deterministic simulation: seeded scheduler over instrumented server goroutines, scripted implementation with invocation log, wire-history oracle"),
 "C07": dict(level="exploration", ref="§4 C07",
   text="Deterministic simulation: Tflush is placed by construction and by the seeded scheduler at every stage of its target's life (same transport write, worker not yet started, queued behind a same-tag request, parked in the implementation with and without FlushOp, answering, already answered, flush of a flush, several flushes), the old tag is reused the moment Rflush arrives, and the wire order, the invocation log (step-stamped) and fid probes decide: one Rflush per Tflush, target reply never after its Rflush, no invocation after Rflush, no state left by cancelled requests.",
   note="Trusts the instrumenter, simulated transport, harness codec; 'immediately' is decided at the first quiescence with unrelated requests still parked. A Tflush of a Tflush that gets cancelled leaves its target outstanding (protocol reading stated in DESIGN.md).",
   technique="deterministic simulation: seeded scheduler placing flushes against request life stages; wire-order + step-stamped invocation log + probe oracle"),
 "C08": dict(level="exploration", ref="§4 C08",
   text="Deterministic simulation: a drawn subset of up to 6 outstanding requests is parked inside the scripted implementation; at every quiescence (decided exactly by the simulator: no goroutine can run) every other written request on the same and on other connections must already have its reply, requests issued meanwhile must be answered, and the parked ones are released in scheduler-chosen order with the same check after each release. Groups of 2..8 requests under one shared tag are checked against the step-stamped invocation log for one-at-a-time execution in arrival order and reply order.",
   note="Trusts the instrumenter, the simulated transport (the peer always eventually reads, so back-pressure is only delay) and the harness codec.",
   technique="deterministic simulation: scripted holds inside the implementation + quiescence oracle; invocation-log ordering for shared-tag groups"),
 "C11": dict(level="exploration", ref="§4 C11",
   text="Deterministic simulation: a victim connection with fids in every state and up to 4 requests parked in the implementation is disconnected (EOF, reset, mid-frame) at a drawn step, at a quiescence with requests parked, or idle; parked requests are released afterwards in scheduler-chosen order. Decided from the invocation log and the scheduler's goroutine table: ConnClosed exactly once, every fid shown to the implementation destroyed exactly once, every goroutine descending from the victim's NewConn finished at final quiescence, bystander and a later connection served.",
   note="Trusts the instrumenter, the simulated transport and the scheduler's goroutine ancestry (spawn paths). File descriptors of Ufs are covered by the Ufs stratum once built.",
   technique="deterministic simulation: transport cut as fault at drawn crash points + scripted holds; invocation-log and goroutine-table oracle at quiescence"),
 "C09": dict(level="exploration", ref="§4 C09",
   text="Deterministic simulation of the real client library against a scripted server peer that decodes every request independently, checks tag discipline on arrival, and answers in scheduler-chosen order and segmentation (replies withheld and released one per phase). 1..64 concurrent callers, every reply kind (matching R, Rerror with text and number, mismatched R type), the pipelined Tag interface with shared tags, and a long run of more than 65 535 consecutive calls (thorough) with a recycled-tag bound.",
   note="Trusts the instrumenter, the simulated transport and the peer's independent codec; reply content is a function of the request so that a caller can tell its own reply from anybody else's.",
   technique="deterministic simulation: seeded scheduler over client goroutines + scripted peer choosing reply order; call-result oracle against a function of the request"),
 "C12": dict(level="exploration", ref="§4 C12",
   text="Deterministic simulation over an enumerated configuration grid (server msize x client msize x dialect x version string, 700 cells revisited under new schedules): Rversion fields, then every reply kind measured on the wire with the scripted implementation producing replies at msize-1, msize, msize+1 and 2*msize; renegotiation after the reply-buffer pool was filled and with requests parked; frames announcing illegal sizes (0..6, msize+1, 8*msize+1, 2^31, 2^32-1) with and without partial body must drop only that connection without any invocation; the client side runs Connect against scripted Rversion replies.",
   note="Trusts the instrumenter, simulated transport and harness codec. The implementation never returns more data than asked (that would be the implementation's fault); the bundled Ufs is measured under C14/C15.",
   technique="deterministic simulation over an enumerated negotiation grid; wire-length and dialect oracle with an independent decoder"),
 "C13": dict(level="exploration", ref="§4 C13",
   text="Deterministic simulation: a generated session mixing 9/11-byte messages, Twrite up to msize-1 and messages of exactly msize, with msize 96..4096 so the 8 x msize receive buffer is replaced many times, is delivered to the server's receive loop one byte per read, 1..3 bytes, randomly, coalesced, or with exactly one split point enumerated by run index; expected invocations (arguments, payload hash re-checked when the implementation answers later) and replies are a function of the stream, so every run is checked absolutely. The client's receive loop is fed a scripted reply stream under the same policies.",
   note="Trusts the instrumenter, the simulated transport (read sizes are scheduler decisions) and the harness codec.",
   technique="deterministic simulation: transport read sizes as seeded scheduler decisions incl. enumerated split points; stream-function oracle"),
 "C04": dict(level="exploration", ref="§4 C04/C05",
   text="Deterministic simulation with a reference fid-table model: generated histories (model-aware, so they stay in interesting states) over a small set of fid numbers incl. NOFID, on one or two connections sharing the numbers, every message type with implementation success or error, full / partial / failing / zero-name / in-place walks, with and without AuthOps, both dialects. Each reply, each implementation call and each FidDestroy is compared with the model request by request under seeded schedules (the next request is sent the moment the previous reply is readable), and every fid number is probed at the end.",
   note="Trusts the instrumenter, simulated transport, harness codec and the reference model (a map per connection; transitions as the statement lists them). Requests are issued one at a time per history; pipelined histories are covered by C03/C07/C08. afid == fid in Tattach is not generated (ambiguous).",
   technique="deterministic simulation: model-based histories against an executable reference fid-table model; invocation-log + wire oracle"),
 "C05": dict(level="exploration", ref="§4 C04/C05",
   text="Same harness as C04 with the rule set of C05: for every (fid state, request) pair reached, a request that breaks a fid-state rule (walk from an open fid / by name from a non-directory, open of an open fid or of a directory not for reading, create through a non-directory or open fid or of a special file without .u, write through a fid not open for writing or a directory, read/write counts above msize-IOHDRSZ incl. 2^31 and 2^32-24..2^32-1) must be refused without any implementation call; every other request must be forwarded exactly once with the bound fid object, user and the arguments sent, its reply must equal what the implementation produced, and an attach reaches the implementation only after exactly one accepting AuthCheck when AuthOps is present.",
   note="As C04. Twrite counts above msize-23 cannot be expressed in a well-formed frame and are therefore only exercised for Tread.",
   technique="deterministic simulation: model-based histories against an executable reference model; refusal-before-forward and exactly-once-forward oracle over the invocation log"),
 "C14": dict(level="exploration", ref="§4 C14",
   text="Deterministic simulation of the whole stack — real client library, real server framework, real Ufs on a per-run scratch tree — over the simulated transport: 1..6 caller goroutines with several files open at once, file lengths around every iounit boundary, reads and writes through Clnt.Read/Write and the File helpers (Read, Write, ReadAt, WriteAt, Readn, Written) at offsets around 0, EOF and iounit multiples with counts around the iounit and several iounits; a byte-slice model per file decides every result and os.ReadFile is compared with the model after every write. iounit 128..65512 (limited further by the server's msize), both dialects, segmentation by policy.",
   note="Trusts the host file system and os package, the instrumenter, the simulated transport. Each file is used by one caller (concurrent writers to one file have no single expected content).",
   technique="deterministic simulation: full client+server+Ufs stack under seeded schedules and segmentation; byte-array reference model and os.ReadFile oracle"),
 "C15": dict(level="exploration", ref="§4 C15",
   text="Deterministic simulation of the server framework and the real Ufs on scratch directories of 0..50 (thorough ..3000) entries with name lengths 1..255: a raw peer reads the directory following the protocol's offset rule with a fixed count enumerated (by run index) from the largest entry size up to about three entries, with random counts, with a restart at offset 0 in the middle, and with a count too small for the next entry; the client's Readdir(0) is run as well. Every payload is split into whole stat records by an independent decoder and the concatenated listing is compared with os.ReadDir.",
   note="Trusts the host file system, the instrumenter and the harness stat decoder. Readdir(n) with n != 0 is outside the statement and not judged.",
   technique="deterministic simulation: full server+Ufs stack, enumerated read counts; independent stat decoder and os.ReadDir as oracle"),
 "C16": dict(level="exploration", ref="§4 C16",
   text="Deterministic simulation of the server framework and the real Ufs on random trees (nesting up to 40 levels, names with spaces, non-ASCII bytes, dots, 255 bytes; files, directories, symlinks, hard links): walks by name lists of which a prefix exists, to a new fid and in place, are judged against os.Lstat (number of qids, error iff the first element is missing), Tstat on both fids afterwards decides where they point, and every qid and stat record (type bits, permission bits, length, mtime, name, symlink target, qid path per inode) is compared with the underlying file; the client's FStat resolves every path, deep ones through several Twalks.",
   note="Trusts the host file system and os.Lstat as reference, the instrumenter, the harness codec.",
   technique="deterministic simulation: full server+Ufs stack on generated trees; os.Lstat differential oracle"),
 "C17": dict(level="exploration", ref="§4 C17",
   text="Deterministic simulation with a twin-tree differential: random mutation sequences (create of files with every open mode, directories, symlinks incl. dangling, hard links; writes; removes; wstat rename to free and occupied names, truncate, chmod, mtime) are applied through raw 9P requests to the tree exported by the real Ufs and with os/syscall calls to a twin; the trees are compared recursively after every step, error replies to create/remove must leave the tree unchanged and carry the errno of the failing POSIX call in 9P2000.u, and the fid must name the created or renamed object afterwards.",
   note="Trusts the host file system and the os/syscall package as the POSIX reference (rename(2) via syscall.Rename). Runs as root, so permission failures do not occur naturally; OS-error injection is not built (DESIGN.md §6).",
   technique="deterministic simulation: full server+Ufs stack; twin-tree differential against POSIX operations after every step"),
 "C18": dict(level="exploration", ref="§4 C18",
   text="Deterministic simulation of the server framework and the real Ufs with canary files and directories placed next to and above the exported root: attacking connections draw attach names, walk element lists, create names and rename targets from a grammar over '..', '.', '', '/', absolute paths, '../' chains, elements containing '/', and mixtures with real names, at the root and at random depths, and then use whatever fid resulted for stat, open, read, directory read, write, create, rename and remove. Everything outside the root must be byte-for-byte and metadata-wise unchanged, no returned qid may belong to an object outside the root (inode comparison), no read may return a canary's content, and '..' at the root must yield the root's qid.",
   note="Trusts the host file system; precondition as in the statement: the tree contains no symlink leaving it and the generator creates none. Runs as root.",
   technique="deterministic simulation: full server+Ufs stack under an adversarial name grammar; canary and inode oracle"),
 "C06": dict(level="exploration", ref="§4 C06",
   text="Deterministic simulation of the server framework with the scripted implementation and with the real Ufs under a hostile raw peer: structured adversarial requests (every message type incl. R codes, boundary and random field values, hostile names, huge walks, counts around msize and 2^32, directory reads at arbitrary offsets, renegotiation mid-session, msize from 24), byte-level mutations of valid requests (flips, insertions, deletions, truncations, size-field edits) and raw random bytes, while a bystander connection works throughout and a fresh connection is opened afterwards. Every goroutine of the simulated process is wrapped so that a panic anywhere (receive loop, workers, send loop, implementation) is caught and reported with its stack; unrecoverable fatal errors kill the child process and are reported by the driver.",
   note="Trusts the instrumenter (panic capture in every spawned goroutine) and the simulated transport. Memory growth is bounded by a coarse allocation check only.",
   technique="deterministic simulation with a hostile peer as fault injector: grammar-based, mutation-based and random byte streams; crash oracle over all simulated goroutines"),
 "C20": dict(level="exploration", ref="§4 C20",
   text="Deterministic simulation of the Logger with producers and filterers as simulated goroutines (the select in the logger goroutine is decided by the seeded scheduler): sequential histories are compared exactly with a reference ring after each quiescence; concurrent histories are checked for membership, matching, duplicates, capacity, and for a single log order consistent with per-producer order, real-time order and the order inside every Filter result (cycle detection), incl. no skipped entry forced between two returned ones; convergence after logging stops and absence of blocked calls are decided at quiescence.",
   note="Trusts the instrumenter and scheduler. Resize is not part of the statement and not exercised.",
   technique="deterministic simulation: seeded interleavings of Log/Filter callers; reference ring (exact) and order-graph checker (concurrent)"),
 "C19": dict(level="exploration", ref="§3.7, §4 C19",
   text="Deterministic simulation under the Go race detector: only go9p and the standard library are race-instrumented; the scheduler runtime and the harness are compiled with -race=false and every park/release (and synctest.Wait) runs between runtime.RaceDisable/RaceEnable, so the serialising scheduler adds no happens-before edge and the detector sees exactly the library's own synchronisation (plus go statements and transport write->read, as with sockets) while the schedule stays seeded. Workloads: pipelined requests on distinct fids answered from several goroutines, flushes at every life stage, a Tversion at session start, one client shared by 2..8 goroutines against Ufs with all walks starting from the shared root fid, connections opened and dropped (quiescent) while others are busy. A report stops the child (halt_on_error) and is classified by the innermost go9p frames of both stacks.",
   note="Trusts the race detector and the claim that RaceDisable hides the scheduler (checked by mutants: unlocked fid table / statistics are reported, the locked originals are clean). Harness-only goroutines are ordered among themselves through one private address; a scripted Flush hook publishes the edge a real implementation's own lock would create.",
   technique="deterministic simulation in the race build: seeded schedules with the scheduler hidden from the race detector"),
}
na = {
 "C01": "pure function of (fields, dialect): no schedule, clock, fault or interleaving; deterministic simulation does not apply (DESIGN.md §1)",
 "C02": "pure function of a byte slice; no schedule, clock, fault or interleaving; transport-borne decoding is exercised under C06/C10/C12 (DESIGN.md §1)",
}
checks=[]
for pid in sorted(claimed):
    c=claimed[pid]
    checks.append({"property_id":pid,"quick_cmd":f"./check {pid} quick","thorough_cmd":f"./check {pid} thorough",
      "evidence_file":f"/verif/evidence/{pid}.json","replay_cmd_template":"./check replay {path}","engine":"vsim",
      "level_claimed":{"category":c["level"],"text":c["text"],"design_ref":c["ref"]},"level_note":c["note"],"technique":c["technique"]})
nas=[{"property_id":k,"reason":v} for k,v in sorted(na.items())]
for i in range(1,21):
    pid="C%02d"%i
    if pid not in claimed and pid not in na:
        nas.append({"property_id":pid,"reason":"not claimed yet: its simulation check is still under construction (DESIGN.md §8)"})
m={"version":1,
 "setup_cmd":"./check setup",
 "hooks":{"guard":"none: /repo carries no hook code; schedule points are inserted into a scratch copy by /verif/bin/instrument at check time",
          "enable":"./check <id> <tier> instruments /repo's working tree into a mktemp scratch module (vsim/rt + vsim/h copied in) and builds it with go1.26.8",
          "baseline_off_cmd":"cd /repo && GOFLAGS=-mod=mod GOPROXY=off go test -vet=off -count=1 ./...",
          "source_commits":[],"add_only":True},
 "engines":[{"name":"vsim","path":"/verif/cmd/vdrive","serves_properties":sorted(claimed),"kind_free_text":"deterministic simulator: AST instrumenter + seeded scheduler over testing/synctest quiescence + simulated net.Conn + scripted peers/implementations + driver with minimisation and replay"}],
 "checks":checks,"not_applicable":nas,
 "notes":"Technique family: deterministic simulation with fault injection. Genuine defects repaired in /repo as 'fix:' commits are listed in /verif/KNOWN_FINDINGS.txt."}
json.dump(m,open("/verif/MANIFEST.json","w"),indent=1)
try:
    import jsonschema
    jsonschema.validate(m,json.load(open("/root/.vp/MANIFEST.schema.json")))
    print("MANIFEST valid,",len(checks),"checks,",len(nas),"not applicable")
except ImportError:
    print("written (jsonschema not available to validate)")
