#!/bin/bash
# Sensitivity self-test: apply each mutants/*.patch to a scratch copy of /repo (never to /repo),
# run the owning property's quick check against it and require a VIOLATION (exit 1).
# usage: tools/sensitivity.sh [pattern]
cd "$(dirname "$0")/.." || exit 2
pat="${1:-}"
[ -x bin/vdrive ] || ./check setup || exit 2
fail=0; n=0
for m in mutants/*${pat}*.patch; do
  prop=$(sed -n 's/^# property: //p' "$m" | head -1)
  [ -n "$prop" ] || { echo "SKIP $m (no property header)"; continue; }
  tmp=$(mktemp -d /tmp/mut-XXXXXX)
  git -C /repo archive HEAD | tar -x -C "$tmp"
  # carry over uncommitted edits of the working tree too
  (cd /repo && git diff HEAD) | (cd "$tmp" && patch -p1 -s >/dev/null 2>&1)
  if ! (cd "$tmp" && grep -v '^# ' "/verif/$m" | patch -p1 -s --no-backup-if-mismatch >/dev/null 2>&1); then
    echo "SKIP $m (does not apply)"; rm -rf "$tmp"; continue
  fi
  n=$((n+1))
  out=$(bin/vdrive -verif "$(pwd)" -prop "$prop" -tier quick -repo "$tmp" -noevidence -noshrink -replaydir "$tmp/replays" ${SENS_ARGS:-} 2>&1); rc=$?
  rules=$(echo "$out" | sed -n 's/^violation: property=[^ ]* rule=\([^ ]*\).*/\1/p' | sort -u | tr '\n' ' ')
  if [ $rc -eq 1 ]; then echo "CAUGHT  $prop  $m  [$rules]"; else echo "MISSED  $prop  $m  (exit $rc) $(echo "$out" | tail -1)"; fail=1; fi
  rm -rf "$tmp"
done
echo "sensitivity: $n mutants run"
exit $fail
