#!/bin/bash
# usage: tools/seedcheck.sh <name> <property> <dir with patch.diff + demo *_test.go>
# Confirms a seeded change independently in a scratch worktree: suite passes with it, demo fails with it
# and passes without it; then runs the property's quick check against the changed tree.
name=$1; prop=$2; src=$3
cd /verif || exit 2
wt=/tmp/sv-$name; rm -rf $wt; git -C /repo worktree prune; git -C /repo worktree add -q --detach $wt HEAD || exit 2
trap 'git -C /repo worktree remove --force $wt 2>/dev/null; rm -rf $wt' EXIT
export GOFLAGS=-mod=mod GOPROXY=off
cd $wt
git apply $src/patch.diff || { echo "RESULT $name: patch does not apply"; exit 1; }
suite=$(go test -vet=off -count=1 ./... 2>&1 | tail -3 | tr '\n' ' ')
case "$suite" in *"ok  "*github.com/rminnich/go9p*) s1=pass;; *) s1="FAIL: $suite";; esac
cp $src/*_test.go . 2>/dev/null
tests=$(grep -h -o '^func Test[A-Za-z0-9_]*' $src/*_test.go | sed 's/func //' | paste -sd'|')
d1=$(timeout 600 go test -vet=off -count=1 -run "^($tests)\$" . 2>&1 | tail -4 | tr '\n' ' ')
case "$d1" in *FAIL*|*panic*) w=fails;; *) w="PASSES(!): $d1";; esac
git checkout -q -- . ; 
d2=$(timeout 900 go test -vet=off -count=1 -run "^($tests)\$" . 2>&1 | tail -3 | tr '\n' ' ')
case "$d2" in *"ok  "*) wo=passes;; *) wo="FAILS(!): $d2";; esac
git apply $src/patch.diff; rm -f $(cd $src; ls *_test.go)
echo "RESULT $name: suite-with-change=$s1 demo-with-change=$w demo-without=$wo"
cd /verif
out=$(bin/vdrive -prop $prop -tier quick -repo $wt -noevidence -replaydir /tmp/sv-replays-$name ${SEED_ARGS:-} 2>&1); rc=$?
rules=$(echo "$out" | sed -n 's/^violation: property=[^ ]* rule=\([^ ]*\).*/\1/p' | sort -u | tr '\n' ' ')
echo "CHECK  $name: $prop quick exit=$rc rules=[$rules] $(echo "$out" | grep "^$prop " | tail -1)"
rm -rf /tmp/sv-replays-$name
