#!/bin/bash
# usage: tools/seedrecheck.sh [Cxx ...]  — every stored, claimed seeded change is applied to a scratch worktree of
# /repo and the owning property's quick check must report a violation (exit 1). Prints one line per change.
cd "$(dirname "$0")/.." || exit 2
./check setup >/dev/null 2>&1
props="$@"; [ -n "$props" ] || props="C03 C04 C05 C06 C07 C08 C09 C10 C11 C12 C13 C14 C15 C16 C17 C18 C19 C20"
miss=0; n=0
for p in $props; do
  for d in seeded/$p-*; do
    case "$d" in *NOT-CLAIMED*|*CAUGHT-BY*) continue;; esac
    [ -f "$d/patch.diff" ] || continue
    wt=/tmp/srk-$$; rm -rf $wt; git -C /repo worktree prune; git -C /repo worktree add -q --detach $wt HEAD || exit 2
    if ! git -C $wt apply "$(pwd)/$d/patch.diff" 2>/dev/null; then echo "NOAPPLY $d"; git -C /repo worktree remove --force $wt; continue; fi
    out=$(bin/vdrive -verif "$(pwd)" -prop $p -tier quick -repo $wt -noevidence -noshrink -replaydir /tmp/srk-rp-$$ 2>&1); rc=$?
    rules=$(echo "$out" | sed -n 's/^violation: property=[^ ]* rule=\([^ ]*\).*/\1/p' | sort -u | tr '\n' ' ')
    n=$((n+1))
    if [ $rc -eq 1 ]; then echo "CAUGHT $d [$rules]"; else echo "MISSED $d rc=$rc"; miss=$((miss+1)); fi
    git -C /repo worktree remove --force $wt; rm -rf /tmp/srk-rp-$$
  done
done
echo "seedrecheck: $n changes, $miss missed"
[ $miss -eq 0 ]
