#!/bin/bash
# usage: tools/sweep.sh <tier> <secs> <seed>...   — every claimed property under several base seeds (false-alarm hunt)
cd "$(dirname "$0")/.." || exit 2
./check setup || exit 2
tier=$1; secs=$2; shift; shift
for seed in "$@"; do
  for p in $(python3 -c "import json;print(' '.join(c['property_id'] for c in json.load(open('MANIFEST.json'))['checks']))"); do
    out=$(VERIF_SEED=$seed bin/vdrive -verif "$(pwd)" -prop $p -tier $tier -secs $secs -noevidence -replaydir replays-bg 2>&1); rc=$?
    echo "seed=$seed rc=$rc $(echo "$out" | grep "^$p " | tail -1 | cut -c1-170)"
    [ $rc -ne 0 ] && echo "$out" | grep "^violation\|^TROUBLE\|^VIOLATION" | head -8 | cut -c1-400
  done
done
