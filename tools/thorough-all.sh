#!/bin/bash
# usage: tools/thorough-all.sh <seed> [secs-per-property]   — every claimed property, thorough tier, one after the other
cd "$(dirname "$0")/.." || exit 2
./check setup || exit 2
seed=${1:-1}; secs=${2:-}
rc=0
for p in $(python3 -c "import json;print(' '.join(c['property_id'] for c in json.load(open('MANIFEST.json'))['checks']))"); do
  extra=""; [ -n "$secs" ] && extra="-secs $secs"
  VERIF_SEED=$seed bin/vdrive -verif "$(pwd)" -prop $p -tier thorough -noevidence -replaydir replays-bg $extra 2>&1 | grep -v "^minimised" | tail -12 | cut -c1-400
  [ ${PIPESTATUS[0]} -ne 0 ] && rc=1
done
exit $rc
