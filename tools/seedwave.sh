#!/bin/bash
# usage: tools/seedwave.sh [Cxx ...]  — run tools/seedcheck.sh for every /tmp/seed-Cxx-out/{A,B} present
cd "$(dirname "$0")/.." || exit 2
props="$@"; [ -n "$props" ] || props=$(ls -d /tmp/seed-C*-out 2>/dev/null | sed 's/.*seed-\(C[0-9]*\)-out/\1/')
for p in $props; do
  for v in A B; do
    d=/tmp/seed-$p-out/$v; [ -f $d/patch.diff ] || continue
    tools/seedcheck.sh $p$v $p $d 2>&1 | grep -E "RESULT|CHECK" | cut -c1-330
  done
done
